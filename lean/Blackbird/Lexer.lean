/-
  Blackbird.Lexer — the lexer rules of `src/blackbird.g4` as regular expressions over code
  points, Brzozowski derivatives, and ANTLR's tokenisation discipline: at each position take
  the longest match over all non-fragment rules, the earliest rule winning ties; `-> skip`
  rules produce no token. Line numbers advance on '\n' only (as `LexerATNSimulator.consume`).

  `lexRules` is a static transcription; the C14 check regenerates the same structure from the
  grammar file on every run and proves the two equal (`GenProps/C14.lean`).
-/
import Blackbird.Syntax

namespace Blackbird

/-- Regular expressions over code points. `set rs` matches one code point inside one of the
inclusive ranges, `nset rs` one code point outside all of them (`.` is `nset []`). -/
inductive Re
  | empty
  | eps
  | set (rs : List (Nat × Nat))
  | nset (rs : List (Nat × Nat))
  | seq (a b : Re)
  | alt (a b : Re)
  | star (a : Re)
  deriving DecidableEq, Repr, Inhabited

namespace Re

def inRanges (rs : List (Nat × Nat)) (c : Nat) : Bool :=
  rs.any fun r => r.1 ≤ c && c ≤ r.2

def nullable : Re → Bool
  | empty => false
  | eps => true
  | set _ => false
  | nset _ => false
  | seq a b => a.nullable && b.nullable
  | alt a b => a.nullable || b.nullable
  | star _ => true

/-- smart constructors: keep `empty` and `eps` from piling up so that a dead regex is
literally `empty`. -/
def mkSeq : Re → Re → Re
  | empty, _ => empty
  | _, empty => empty
  | eps, b => b
  | a, eps => a
  | a, b => seq a b

def mkAlt : Re → Re → Re
  | empty, b => b
  | a, empty => a
  | a, b => if a = b then a else alt a b

def deriv (c : Nat) : Re → Re
  | empty => empty
  | eps => empty
  | set rs => if inRanges rs c then eps else empty
  | nset rs => if inRanges rs c then empty else eps
  | seq a b =>
      if a.nullable then mkAlt (mkSeq (a.deriv c) b) (b.deriv c) else mkSeq (a.deriv c) b
  | alt a b => mkAlt (a.deriv c) (b.deriv c)
  | star a => mkSeq (a.deriv c) (star a)

/-- Length of the longest prefix of `s` matched by `r` (if any). `i` is the number of code
points consumed so far, `best` the longest match seen so far. -/
def longestGo : Re → List Char → Nat → Option Nat → Option Nat
  | _, [], _, best => best
  | r, c :: s, i, best =>
      let r' := r.deriv c.toNat
      if r' = empty then best
      else longestGo r' s (i + 1) (if r'.nullable then some (i + 1) else best)

def longest (r : Re) (s : List Char) : Option Nat :=
  longestGo r s 0 (if r.nullable then some 0 else none)

/-- helpers for writing rules -/
def chr (c : Char) : Re := set [(c.toNat, c.toNat)]
def lit (s : String) : Re := s.toList.foldr (fun c r => seq (chr c) r) eps
def plus (a : Re) : Re := seq a (star a)
def opt (a : Re) : Re := alt a eps
def alts : List Re → Re
  | [] => empty
  | [a] => a
  | a :: as => alt a (alts as)
def seqs : List Re → Re
  | [] => eps
  | [a] => a
  | a :: as => seq a (seqs as)

end Re

open Re

/-! The rules below are the translator's output for src/blackbird.g4 (harness/translate.py) with token
kinds instead of names; `GenProps/C14.lean` proves them equal to what the translator produces from
the grammar file of the current tree. -/

def rePLUS : Re := (lit "+")
def reMINUS : Re := (lit "-")
def reTIMES : Re := (lit "*")
def reDIVIDE : Re := (lit "/")
def rePWR : Re := (lit "**")
def reASSIGN : Re := (lit "=")
def reFOR : Re := (lit "for")
def reIN : Re := (lit "in")
def reDIGIT : Re := (plus (set [(48, 57)]))
def reREAL : Re := (seqs [reDIGIT, (opt (seqs [(lit "."), reDIGIT])), (opt (seqs [(alts [(lit "e"), (lit "E")]), (opt (alts [(lit "+"), (lit "-")])), reDIGIT]))])
def reNUMBER : Re := (alts [reREAL, reDIGIT])
def reIMAG : Re := (seqs [reNUMBER, (set [(106, 106), (74, 74)])])
def reINT : Re := reDIGIT
def reFLOAT : Re := reREAL
def reCOMPLEX : Re := (seqs [(opt (alts [(lit "+"), (lit "-")])), (opt (seqs [reNUMBER, (alts [(lit "+"), (lit "-")])])), reIMAG])
def reSTR : Re := (seqs [(lit "\""), (star (nset [(34, 34), (10, 10), (13, 13)])), (lit "\"")])
def reBOOL : Re := (alts [(lit "True"), (lit "False")])
def reSEQUENCE : Re := (seqs [reNUMBER, (star (seqs [(lit ","), reNUMBER]))])
def rePI : Re := (lit "pi")
def reNEWLINE : Re := (alts [(lit "\r\n"), (lit "\r"), (lit "\n")])
def reTAB : Re := (alts [(lit "\t"), (lit "    ")])
def reSPACE : Re := (plus (set [(32, 32), (9, 9)]))
def rePROGNAME : Re := (lit "name")
def reVERSION : Re := (lit "version")
def reTARGET : Re := (lit "target")
def rePROGTYPE : Re := (lit "type")
def reINCLUDE : Re := (lit "include")
def reSQRT : Re := (lit "sqrt")
def reSIN : Re := (lit "sin")
def reCOS : Re := (lit "cos")
def reTAN : Re := (lit "tan")
def reARCSIN : Re := (lit "arcsin")
def reARCCOS : Re := (lit "arccos")
def reARCTAN : Re := (lit "arctan")
def reSINH : Re := (lit "sinh")
def reCOSH : Re := (lit "cosh")
def reTANH : Re := (lit "tanh")
def reARCSINH : Re := (lit "arcsinh")
def reARCCOSH : Re := (lit "arccosh")
def reARCTANH : Re := (lit "arctanh")
def reEXP : Re := (lit "exp")
def reLOG : Re := (lit "log")
def rePERIOD : Re := (lit ".")
def reCOMMA : Re := (lit ",")
def reCOLON : Re := (lit ":")
def reQUOTE : Re := (lit "\"")
def reLBRAC : Re := (lit "(")
def reRBRAC : Re := (lit ")")
def reLSQBRAC : Re := (lit "[")
def reRSQBRAC : Re := (lit "]")
def reLBRACE : Re := (lit "{")
def reRBRACE : Re := (lit "}")
def reAPPLY : Re := (lit "|")
def reTYPE_ARRAY : Re := (lit "array")
def reTYPE_FLOAT : Re := (lit "float")
def reTYPE_COMPLEX : Re := (lit "complex")
def reTYPE_INT : Re := (lit "int")
def reTYPE_STR : Re := (lit "str")
def reTYPE_BOOL : Re := (lit "bool")
def reREGREF : Re := (seqs [(lit "q"), reDIGIT])
def reMEASURE : Re := (seqs [(lit "Measure"), (star (set [(65, 90), (97, 122)]))])
def reNAME : Re := (seqs [(set [(65, 90), (97, 122)]), (star (set [(48, 57), (65, 90), (97, 122), (95, 95)]))])
def reDEVICE : Re := (plus (set [(48, 57), (65, 90), (97, 122), (46, 46), (95, 95)]))
def reCOMMENT : Re := (seqs [(lit "#"), (star (nset [(13, 13), (10, 10)]))])
def reANY : Re := (nset [])

/-- The 61 non-fragment lexer rules in grammar order: kind, regex, `-> skip`? -/
def lexRules : List (TokKind × Re × Bool) :=
  [ (.PLUS, rePLUS, false),
    (.MINUS, reMINUS, false),
    (.TIMES, reTIMES, false),
    (.DIVIDE, reDIVIDE, false),
    (.PWR, rePWR, false),
    (.ASSIGN, reASSIGN, false),
    (.FOR, reFOR, false),
    (.IN, reIN, false),
    (.INT, reINT, false),
    (.FLOAT, reFLOAT, false),
    (.COMPLEX, reCOMPLEX, false),
    (.STR, reSTR, false),
    (.BOOL, reBOOL, false),
    (.SEQUENCE, reSEQUENCE, false),
    (.PI, rePI, false),
    (.NEWLINE, reNEWLINE, false),
    (.TAB, reTAB, false),
    (.SPACE, reSPACE, true),
    (.PROGNAME, rePROGNAME, false),
    (.VERSION, reVERSION, false),
    (.TARGET, reTARGET, false),
    (.PROGTYPE, rePROGTYPE, false),
    (.INCLUDE, reINCLUDE, false),
    (.SQRT, reSQRT, false),
    (.SIN, reSIN, false),
    (.COS, reCOS, false),
    (.TAN, reTAN, false),
    (.ARCSIN, reARCSIN, false),
    (.ARCCOS, reARCCOS, false),
    (.ARCTAN, reARCTAN, false),
    (.SINH, reSINH, false),
    (.COSH, reCOSH, false),
    (.TANH, reTANH, false),
    (.ARCSINH, reARCSINH, false),
    (.ARCCOSH, reARCCOSH, false),
    (.ARCTANH, reARCTANH, false),
    (.EXP, reEXP, false),
    (.LOG, reLOG, false),
    (.PERIOD, rePERIOD, false),
    (.COMMA, reCOMMA, false),
    (.COLON, reCOLON, false),
    (.QUOTE, reQUOTE, false),
    (.LBRAC, reLBRAC, false),
    (.RBRAC, reRBRAC, false),
    (.LSQBRAC, reLSQBRAC, false),
    (.RSQBRAC, reRSQBRAC, false),
    (.LBRACE, reLBRACE, false),
    (.RBRACE, reRBRACE, false),
    (.APPLY, reAPPLY, false),
    (.TYPE_ARRAY, reTYPE_ARRAY, false),
    (.TYPE_FLOAT, reTYPE_FLOAT, false),
    (.TYPE_COMPLEX, reTYPE_COMPLEX, false),
    (.TYPE_INT, reTYPE_INT, false),
    (.TYPE_STR, reTYPE_STR, false),
    (.TYPE_BOOL, reTYPE_BOOL, false),
    (.REGREF, reREGREF, false),
    (.MEASURE, reMEASURE, false),
    (.NAME, reNAME, false),
    (.DEVICE, reDEVICE, false),
    (.COMMENT, reCOMMENT, true),
    (.ANY, reANY, false) ]

/-- one step of the scan over the rules: a longer match replaces the incumbent, an equal one does not -/
def bestStep (s : List Char) (acc : Option (TokKind × Bool × Nat)) (x : TokKind × Re × Bool) :
    Option (TokKind × Bool × Nat) :=
  match x.2.1.longest s with
  | some n =>
      if n = 0 then acc else
      match acc with
      | some (_, _, m) => if n > m then some (x.1, x.2.2, n) else acc
      | none => some (x.1, x.2.2, n)
  | none => acc

/-- Best rule at the head of `s`: longest match, earliest rule on ties. -/
def bestRule (rules : List (TokKind × Re × Bool)) (s : List Char) : Option (TokKind × Bool × Nat) :=
  rules.foldl (bestStep s) none

/-- advance a position over the consumed characters -/
def advance (p : Pos) : List Char → Pos
  | [] => p
  | c :: cs => advance (if c = '\n' then ⟨p.line + 1, 0⟩ else ⟨p.line, p.col + 1⟩) cs

def lexGo (rules : List (TokKind × Re × Bool)) : Nat → List Char → Pos → List Tok → List Tok
  | 0, _, p, acc => (⟨.EOF, "<EOF>", p⟩ :: acc).reverse
  | _, [], p, acc => (⟨.EOF, "<EOF>", p⟩ :: acc).reverse
  | fuel + 1, s, p, acc =>
      match bestRule rules s with
      | none => (⟨.EOF, "<EOF>", p⟩ :: acc).reverse      -- unreachable: ANY matches everything
      | some (k, skip, n) =>
          let txt := s.take n
          let p' := advance p txt
          lexGo rules fuel (s.drop n) p' (if skip then acc else ⟨k, String.ofList txt, p⟩ :: acc)

/-- Token stream of a text, ending with an EOF token positioned at the end of input. -/
def lex (s : String) : List Tok :=
  let cs := s.toList
  lexGo lexRules (cs.length + 1) cs ⟨1, 0⟩ []

end Blackbird
