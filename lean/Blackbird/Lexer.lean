/-
  Blackbird.Lexer — the lexer rules of `src/blackbird.g4` as regular expressions over code
  points, Brzozowski derivatives, and ANTLR's tokenisation discipline: at each position take
  the longest match over all non-fragment rules, the earliest rule winning ties; `-> skip`
  rules produce no token. Line numbers advance on '\n' only (as `LexerATNSimulator.consume`).

  `lexRules` is a static transcription; the C14 check regenerates the same structure from the
  grammar file on every run and proves the two equal (`GenProps/C14.lean`).
-/
import Blackbird.Syntax

namespace Blackbird

/-- Regular expressions over code points. `set rs` matches one code point inside one of the
inclusive ranges, `nset rs` one code point outside all of them (`.` is `nset []`). -/
inductive Re
  | empty
  | eps
  | set (rs : List (Nat × Nat))
  | nset (rs : List (Nat × Nat))
  | seq (a b : Re)
  | alt (a b : Re)
  | star (a : Re)
  deriving DecidableEq, Repr, Inhabited

namespace Re

def inRanges (rs : List (Nat × Nat)) (c : Nat) : Bool :=
  rs.any fun r => r.1 ≤ c && c ≤ r.2

def nullable : Re → Bool
  | empty => false
  | eps => true
  | set _ => false
  | nset _ => false
  | seq a b => a.nullable && b.nullable
  | alt a b => a.nullable || b.nullable
  | star _ => true

/-- smart constructors: keep `empty` and `eps` from piling up so that a dead regex is
literally `empty`. -/
def mkSeq : Re → Re → Re
  | empty, _ => empty
  | _, empty => empty
  | eps, b => b
  | a, eps => a
  | a, b => seq a b

def mkAlt : Re → Re → Re
  | empty, b => b
  | a, empty => a
  | a, b => if a = b then a else alt a b

def deriv (c : Nat) : Re → Re
  | empty => empty
  | eps => empty
  | set rs => if inRanges rs c then eps else empty
  | nset rs => if inRanges rs c then empty else eps
  | seq a b =>
      if a.nullable then mkAlt (mkSeq (a.deriv c) b) (b.deriv c) else mkSeq (a.deriv c) b
  | alt a b => mkAlt (a.deriv c) (b.deriv c)
  | star a => mkSeq (a.deriv c) (star a)

/-- Length of the longest prefix of `s` matched by `r` (if any). `i` is the number of code
points consumed so far, `best` the longest match seen so far. -/
def longestGo : Re → List Char → Nat → Option Nat → Option Nat
  | _, [], _, best => best
  | r, c :: s, i, best =>
      let r' := r.deriv c.toNat
      if r' = empty then best
      else longestGo r' s (i + 1) (if r'.nullable then some (i + 1) else best)

def longest (r : Re) (s : List Char) : Option Nat :=
  longestGo r s 0 (if r.nullable then some 0 else none)

/-- helpers for writing rules -/
def chr (c : Char) : Re := set [(c.toNat, c.toNat)]
def lit (s : String) : Re := s.toList.foldr (fun c r => seq (chr c) r) eps
def plus (a : Re) : Re := seq a (star a)
def opt (a : Re) : Re := alt a eps
def alts : List Re → Re
  | [] => empty
  | [a] => a
  | a :: as => alt a (alts as)
def seqs : List Re → Re
  | [] => eps
  | [a] => a
  | a :: as => seq a (seqs as)

end Re

open Re

def reDIGIT : Re := plus (set [(48, 57)])
def reREAL : Re :=
  seqs [reDIGIT, opt (seq (chr '.') reDIGIT),
        opt (seqs [alt (chr 'e') (chr 'E'), opt (alt (chr '+') (chr '-')), reDIGIT])]
def reNUMBER : Re := alt reREAL reDIGIT
def reIMAG : Re := seq reNUMBER (set [(106, 106), (74, 74)])
def reAlpha : List (Nat × Nat) := [(65, 90), (97, 122)]
def reAlnum_ : List (Nat × Nat) := [(48, 57), (65, 90), (95, 95), (97, 122)]

/-- The 61 non-fragment lexer rules in grammar order: kind, regex, `-> skip`? -/
def lexRules : List (TokKind × Re × Bool) :=
  [ (.PLUS, lit "+", false), (.MINUS, lit "-", false), (.TIMES, lit "*", false),
    (.DIVIDE, lit "/", false), (.PWR, lit "**", false), (.ASSIGN, lit "=", false),
    (.FOR, lit "for", false), (.IN, lit "in", false),
    (.INT, reDIGIT, false),
    (.FLOAT, reREAL, false),
    (.COMPLEX, seqs [opt (alt (chr '+') (chr '-')),
                     opt (seq reNUMBER (alt (chr '+') (chr '-'))), reIMAG], false),
    (.STR, seqs [chr '"', star (nset [(34, 34), (10, 10), (13, 13)]), chr '"'], false),
    (.BOOL, alt (lit "True") (lit "False"), false),
    (.SEQUENCE, seq reNUMBER (star (seq (chr ',') reNUMBER)), false),
    (.PI, lit "pi", false),
    (.NEWLINE, alts [lit "\r\n", lit "\r", lit "\n"], false),
    (.TAB, alt (lit "\t") (lit "    "), false),
    (.SPACE, plus (set [(32, 32), (9, 9)]), true),
    (.PROGNAME, lit "name", false), (.VERSION, lit "version", false),
    (.TARGET, lit "target", false), (.PROGTYPE, lit "type", false),
    (.INCLUDE, lit "include", false),
    (.SQRT, lit "sqrt", false), (.SIN, lit "sin", false), (.COS, lit "cos", false),
    (.TAN, lit "tan", false), (.ARCSIN, lit "arcsin", false), (.ARCCOS, lit "arccos", false),
    (.ARCTAN, lit "arctan", false), (.SINH, lit "sinh", false), (.COSH, lit "cosh", false),
    (.TANH, lit "tanh", false), (.ARCSINH, lit "arcsinh", false),
    (.ARCCOSH, lit "arccosh", false), (.ARCTANH, lit "arctanh", false),
    (.EXP, lit "exp", false), (.LOG, lit "log", false),
    (.PERIOD, lit ".", false), (.COMMA, lit ",", false), (.COLON, lit ":", false),
    (.QUOTE, lit "\"", false), (.LBRAC, lit "(", false), (.RBRAC, lit ")", false),
    (.LSQBRAC, lit "[", false), (.RSQBRAC, lit "]", false), (.LBRACE, lit "{", false),
    (.RBRACE, lit "}", false), (.APPLY, lit "|", false),
    (.TYPE_ARRAY, lit "array", false), (.TYPE_FLOAT, lit "float", false),
    (.TYPE_COMPLEX, lit "complex", false), (.TYPE_INT, lit "int", false),
    (.TYPE_STR, lit "str", false), (.TYPE_BOOL, lit "bool", false),
    (.REGREF, seq (chr 'q') reDIGIT, false),
    (.MEASURE, seq (lit "Measure") (star (set reAlpha)), false),
    (.NAME, seq (set reAlpha) (star (set reAlnum_)), false),
    (.DEVICE, plus (set [(46, 46), (48, 57), (65, 90), (95, 95), (97, 122)]), false),
    (.COMMENT, seq (chr '#') (star (nset [(13, 13), (10, 10)])), true),
    (.ANY, nset [], false) ]


/-- Best rule at the head of `s`: longest match, earliest rule on ties. -/
def bestRule (rules : List (TokKind × Re × Bool)) (s : List Char) : Option (TokKind × Bool × Nat) :=
  rules.foldl (fun acc (k, r, skip) =>
    match r.longest s with
    | some n =>
        if n = 0 then acc else
        match acc with
        | some (_, _, m) => if n > m then some (k, skip, n) else acc
        | none => some (k, skip, n)
    | none => acc) none

/-- advance a position over the consumed characters -/
def advance (p : Pos) : List Char → Pos
  | [] => p
  | c :: cs => advance (if c = '\n' then ⟨p.line + 1, 0⟩ else ⟨p.line, p.col + 1⟩) cs

def lexGo (rules : List (TokKind × Re × Bool)) : Nat → List Char → Pos → List Tok → List Tok
  | 0, _, p, acc => (⟨.EOF, "<EOF>", p⟩ :: acc).reverse
  | _, [], p, acc => (⟨.EOF, "<EOF>", p⟩ :: acc).reverse
  | fuel + 1, s, p, acc =>
      match bestRule rules s with
      | none => (⟨.EOF, "<EOF>", p⟩ :: acc).reverse      -- unreachable: ANY matches everything
      | some (k, skip, n) =>
          let txt := s.take n
          let p' := advance p txt
          lexGo rules fuel (s.drop n) p' (if skip then acc else ⟨k, String.ofList txt, p⟩ :: acc)

/-- Token stream of a text, ending with an EOF token positioned at the end of input. -/
def lex (s : String) : List Tok :=
  let cs := s.toList
  lexGo lexRules (cs.length + 1) cs ⟨1, 0⟩ []

end Blackbird
