/-
  Blackbird.Listener — mirror of `listener.py`: the walker callbacks of `BlackbirdListener`
  with the process-wide tables as explicit state, `parse()`, includes, for-loops, and of
  `BlackbirdProgram.__call__` (needed by include call sites).

  The order of events is the tree walker's: exitDeclarename, exitVersion, exitTarget,
  exitDeclaretype, exitInclude*, enterProgram, then per item exitExpressionvar / exitArrayvar /
  exitStatement / enterForloop..exitForloop, then exitProgram.

  A failing load returns the error together with the tables as they are left behind
  (`_VAR`, `_PARAMS` are module globals and survive the exception).
-/
import Blackbird.Eval

namespace Blackbird

variable {K : Type} [Scalar K]

/-- result of listener-level steps: on failure, the error and the tables left behind -/
abbrev LRes (K : Type) (α : Type) := Except (Err × Tables K) α

def liftE {α} (T : Tables K) : Except Err α → LRes K α
  | .ok a => .ok a
  | .error e => .error (e, T)

/-- `is_ptype`: "p" followed by at least one digit -/
def isPType (s : String) : Bool :=
  match s.toList with
  | 'p' :: d :: ds => (d :: ds).all Char.isDigit
  | _ => false

/-! ### `BlackbirdProgram.__call__` -/

/-- Python-number power as produced by `lambdify`'d code: like `Num.pow` except that an
integer to a negative integer power is a float. -/
def Num.pyPow (a b : Num K) : Except Err (Num K) :=
  match a, b with
  | .int x, .int n => if n < 0 then .ok (.real (Scalar.powInt (Scalar.ofInt x) n)) else Num.pow a b
  | _, _ => Num.pow a b

/-- substitute values for parameters in a symbolic tree and evaluate what becomes numeric -/
def substS (σ : List (String × Val K)) : SExpr K → Except Err (Val K)
  | .num n => .ok (.atom (.num n))
  | .par p =>
    match dictGet σ p with
    | none => .error .value                   -- "Invalid value for free parameter provided"
    | some (.atom (.num n)) => .ok (.atom (.num n))
    | some (.atom (.sym e)) => .ok (.atom (.sym e))
    | some (.rrt e) => .ok (.atom (.sym e))
    | some _ => .error (.ood "non-numeric parameter value")
  | .reg r => .ok (.atom (.sym (.reg r)))
  | .neg a => do negVal (← substS σ a)
  | .add a b => do
    let x ← substS σ a
    let y ← substS σ b
    liftBin (fun p q => .ok (p.add q)) .add x y
  | .mul a b => do
    let x ← substS σ a
    let y ← substS σ b
    liftBin (fun p q => .ok (p.mul q)) .mul x y
  | .pow a b => do
    let x ← substS σ a
    let y ← substS σ b
    liftBin Num.pyPow .pow x y

def valToSExpr : Val K → Except Err (SExpr K)
  | .atom (.num n) => .ok (.num n)
  | .atom (.sym e) => .ok e
  | _ => .error (.ood "non-scalar array element")

/-- substitution in one value (`program.py:241-299`, as repaired): a symbolic value, the
symbolic elements of an array, the symbolic elements of a list -/
def substVal (σ : List (String × Val K)) : Val K → Except Err (Val K)
  | .atom (.sym e) => substS σ e
  | .arr dt r c flat => do
    let flat' ← flat.mapM fun e =>
      match e with
      | .num n => .ok (.num n)
      | e => do valToSExpr (← substS σ e)
    .ok (.arr dt r c flat')
  | .list vs => do
    let vs' ← vs.mapM fun a =>
      match a with
      | .sym e => do valToAtom (← substS σ e)
      | a => .ok a
    .ok (.list vs')
  | v => .ok v

def rangeNat (n : Nat) : List Nat := List.range n

/-- expand 2-D array values to `name_i_j` entries; other iterables are refused -/
def expandKwargs : List (String × Val K) → Except Err (List (String × Val K))
  | [] => .ok []
  | (k, v) :: rest => do
    let tail ← expandKwargs rest
    match v with
    | .arr _ r c flat =>
      let entries := (rangeNat r).flatMap fun i => (rangeNat c).filterMap fun j =>
        match flat[i * c + j]? with
        | some e => some (k ++ "_" ++ toString i ++ "_" ++ toString j, sexprToVal e)
        | none => none
      .ok (entries ++ tail)
    | .list _ => .error .value
    | .atom (.str _) => .error .value
    | .atom (.pname _) => .error .value
    | v => .ok ((k, v) :: tail)

def dedupStr : List String → List String
  | [] => []
  | x :: xs => x :: (dedupStr xs).filter (· ≠ x)

/-- `parameters`: the set of parameter names -/
def Program.paramSet (p : Program K) : List String := dedupStr p.params

def Program.isTemplate (p : Program K) : Bool := !p.params.isEmpty

def substOp (σ : List (String × Val K)) (op : Op K) : Except Err (Op K) :=
  match op.args with
  | none => .ok op
  | some (pos, kw) => do
    let pos' ← pos.mapM (substVal σ)
    let kw' ← kw.mapM fun kv => do .ok (kv.1, ← substVal σ kv.2)
    .ok { op with args := some (pos', kw') }

/-- `BlackbirdProgram.__call__(**kwargs)` -/
def instantiate (p : Program K) (kwargs : List (String × Val K)) : Except Err (Program K) := do
  if !p.isTemplate then .error .value
  else
    let σ ← expandKwargs kwargs
    -- later duplicates win, as in a dict built by successive updates
    let σ := σ.foldl (fun d kv => dictSet d kv.1 kv.2) []
    let ops ← p.ops.mapM (substOp σ)
    let vars ← p.vars.mapM fun kv => do .ok (kv.1, ← substVal σ kv.2)
    .ok { p with ops := ops, vars := vars, params := [] }

/-! ### casts -/

def boolToInt (b : Bool) : Int := if b then 1 else 0

/-- `PYTHON_TYPES[vartype](value)` with the NumPy fallback (`listener.py:286-301`) -/
def castScalar (ty : VarType) (v : Val K) : Except Err (Val K) :=
  match v with
  | .atom (.sym e) => .ok (.atom (.sym e))
  | .atom (.num n) =>
    match ty, n with
    | .int, .int i => .ok (.atom (.num (.int i)))
    | .int, .real x => match Scalar.trunc x with
                       | some i => .ok (.atom (.num (.int i)))
                       | none => .error (.ood "int() of a non-finite value")
    | .int, .cplx _ _ => .error .type
    | .float, .cplx _ _ => .error .type
    | .float, n => match n.toReal with
                   | some x => .ok (.atom (.num (.real x)))
                   | none => .error .type
    | .complex, n => let c := n.toCplx; .ok (.atom (.num (.cplx c.1 c.2)))
    | .bool, .int i => .ok (.atom (.bool (i ≠ 0)))
    | .bool, .real x => .ok (.atom (.bool (!Scalar.isZero x)))
    | .bool, .cplx a b => .ok (.atom (.bool (!(Scalar.isZero a && Scalar.isZero b))))
    | .str, _ => .error (.ood "str() of a number")
    | .array, _ => .error (.ood "scalar of type array")
  | .atom (.bool b) =>
    match ty with
    | .bool => .ok (.atom (.bool b))
    | .int => .ok (.atom (.num (.int (boolToInt b))))
    | .float => .ok (.atom (.num (.real (Scalar.ofInt (boolToInt b)))))
    | .complex => .ok (.atom (.num (.cplx (Scalar.ofInt (boolToInt b)) (Scalar.ofInt 0))))
    | _ => .error (.ood "bool to str/array")
  | .atom (.str s) =>
    match ty with
    | .str => .ok (.atom (.str s))
    | _ => .error (.ood "string initialiser for a non-str variable")
  | _ => .error (.ood "array or p-name as scalar initialiser")

/-- element cast of `np.array(value, dtype=…)`; a complex or symbolic element makes NumPy
raise TypeError, which the listener turns into a BlackbirdSyntaxError -/
inductive ElemCast (K : Type) | ok (e : Num K) | typeErr | ood

def castElem (ty : VarType) (v : Val K) : ElemCast K :=
  match v with
  | .atom (.num n) =>
    match ty, n with
    | .int, .int i => .ok (.int i)
    | .int, .real x => match Scalar.trunc x with
                       | some i => .ok (.int i)
                       | none => .ood
    | .int, .cplx _ _ => .typeErr
    | .float, .cplx _ _ => .typeErr
    | .float, n => match n.toReal with
                   | some x => .ok (.real x)
                   | none => .typeErr
    | .complex, n => let c := n.toCplx; .ok (.cplx c.1 c.2)
    | _, _ => .ood
  | .atom (.sym _) => .typeErr
  | _ => .ood

/-! ### listener state -/

structure LState (K : Type) where
  tables : Tables K
  ops : List (Op K)
  modes : List Int

abbrev Includes (K : Type) := List (String × (String × Program K))

def insertSorted (x : Int) : List Int → List Int
  | [] => [x]
  | y :: ys => if x ≤ y then x :: y :: ys else y :: insertSorted x ys

/-- insertion sort (structural, so that concrete instances reduce in the kernel) -/
def sortInts (l : List Int) : List Int := l.foldr insertSorted []

def dedupInts : List Int → List Int
  | [] => []
  | x :: xs => x :: (dedupInts xs).filter (· ≠ x)

/-- the set `program.modes`, listed in increasing order -/
def modeSet (l : List Int) : List Int := sortInts (dedupInts l)

/-- The order in which Python happens to iterate a set (it depends on hashing, hence on
PYTHONHASHSEED): an arbitrary permutation of the elements. Every place where the code iterates
a set takes one of these, and C19's theorems quantify over all of them. -/
structure SetOrder (α : Type) where
  perm : List α → List α
  isPerm : ∀ l, (perm l).Perm l

/-- the identity order, used by the executable driver -/
def SetOrder.id {α : Type} : SetOrder α := ⟨fun l => l, fun l => List.Perm.refl l⟩

/-- `sorted(bb.modes)` where `bb.modes` is a Python set iterated in the order `o` -/
def sortedModes (o : SetOrder Int) (modes : List Int) : List Int := sortInts (o.perm (dedupInts modes))

/-- equality of two lists as sets of names (`bb.parameters != set(kwargs)`) -/
def sameSet (a b : List String) : Bool := a.all (b.contains ·) && b.all (a.contains ·)

/-- wrap symbolic arguments that mention a non-parameter symbol as register transforms -/
def wrapRRT (params : List PEntry) (v : Val K) : Val K :=
  match v with
  | .atom (.sym e) =>
    if e.regs.isEmpty && e.pars.all (fun p => params.contains (.sym p)) then v else .rrt e
  | v => v

def evalMode (T : Tables K) (e : Expr) : Except Err Int := do
  match ← evalExpr T e with
  | .atom (.num (.int i)) => .ok i
  | .atom (.bool _) => .error (.ood "bool as mode")
  | _ => .error .value

def lookupMode (m : List (Int × Int)) (j : Int) : Except Err Int :=
  match m.find? (·.1 = j) with
  | some p => .ok p.2
  | none => .error .key

/-- parameters a statement appends to `_PARAMS` while its arguments are evaluated -/
def stmtPars (s : Stmt) : List PEntry :=
  match s.args with
  | none => []
  | some a => a.pars.map .sym

/-- what a statement contributes, given the tables it is evaluated against: the modes it adds
to the mode set and the operations it appends (one, or the renamed operations of an included
program) -/
def stmtEffect (o : SetOrder Int) (incs : Includes K) (T : Tables K) (s : Stmt) :
    Except Err (List Int × List (Op K)) := do
  let modes ← s.modes.mapM (evalMode T)
  let params' := T.params ++ stmtPars s
  let args ← match s.args with
    | none => pure none
    | some a => do
      let (pos, kw) ← evalArgs T a
      pure (some (pos.map (wrapRRT params'), kw.map fun kv => (kv.1, wrapRRT params' kv.2)))
  let op : Op K := ⟨s.op, args, modes⟩
  match dictGet incs s.op with
  | none => .ok (modes, [op])
  | some (_, bb) =>
    let bbModes := sortedModes o bb.modes
    if modes.length ≠ bbModes.length then .error .value
    else do
      let bb ← match args with
        | some (_, kw) =>
          if !bb.isTemplate then .error .value
          else if !(sameSet bb.paramSet (kw.map (·.1))) then .error .value
          else instantiate bb kw
        | none => if bb.isTemplate then .error .value else pure bb
      let modeMap := bbModes.zip modes
      let ops ← bb.ops.mapM fun o => do
        .ok { o with modes := ← o.modes.mapM (lookupMode modeMap) }
      .ok (modes, ops)

/-- `exitStatement` (also used to replay loop bodies) -/
def execStmt (o : SetOrder Int) (incs : Includes K) (st : LState K) (s : Stmt) : LRes K (LState K) :=
  let T' : Tables K := { st.tables with params := st.tables.params ++ stmtPars s }
  match stmtEffect o incs st.tables s with
  | .ok (modes, ops) => .ok { tables := T', ops := st.ops ++ ops, modes := st.modes ++ modes }
  | .error e => .error (e, T')

/-- value range of `range(a, b[, c])` on naturals (`c = 0` is a ValueError in Python) -/
def rangeVals (a b c : Nat) : List Nat :=
  if c = 0 then [] else
  (List.range ((b - a + c - 1) / c)).map fun k => a + k * c

/-- loop-value conversion `PYTHON_TYPES[ty](var)` followed by the `new_var != var` test -/
def castLoopVal (ty : VarType) (v : Val K) : Except Err (Val K) :=
  match ty, v with
  | .int, .atom (.num (.int i)) => .ok (.atom (.num (.int i)))
  | .int, .atom (.num (.real x)) =>
    match Scalar.trunc x with
    | some i => if Scalar.beq (Scalar.ofInt i) x then .ok (.atom (.num (.int i))) else .error .value
    | none => .error .value
  | .int, .atom (.bool b) => .ok (.atom (.num (.int (boolToInt b))))
  | .float, .atom (.num (.int i)) => .ok (.atom (.num (.real (Scalar.ofInt i))))
  | .float, .atom (.num (.real x)) => .ok (.atom (.num (.real x)))
  | .float, .atom (.bool b) => .ok (.atom (.num (.real (Scalar.ofInt (boolToInt b)))))
  | .complex, .atom (.num n) => let c := n.toCplx; .ok (.atom (.num (.cplx c.1 c.2)))
  | .str, .atom (.str s) => .ok (.atom (.str s))
  | .bool, .atom (.bool b) => .ok (.atom (.bool b))
  | .bool, .atom (.num (.int i)) => if i = 0 || i = 1 then .ok (.atom (.bool (i = 1))) else .error .value
  | .bool, .atom (.num (.real x)) =>
    if Scalar.isZero x then .ok (.atom (.bool false))
    else if Scalar.beq x (Scalar.ofInt 1) then .ok (.atom (.bool true))
    else .error .value
  | .complex, .atom (.bool b) =>
    .ok (.atom (.num (.cplx (Scalar.ofInt (boolToInt b)) (Scalar.ofInt 0))))
  | .int, .atom (.num (.cplx _ _)) => .error .type
  | .float, .atom (.num (.cplx _ _)) => .error .type
  | .int, .atom (.str _) => .error .value
  | .float, .atom (.str _) => .error .value
  | .str, .atom (.num _) => .error .value
  | .str, .atom (.bool _) => .error .value
  | .bool, .atom (.str _) => .error .value
  | .int, .atom (.sym _) => .error .type
  | .float, .atom (.sym _) => .error .type
  | _, _ => .error (.ood "loop value conversion not modelled")

/-- convert one loop value, bind the variable, replay the body; value by value (an early
value's body runs before a later value is converted) -/
def execLoopVals (o : SetOrder Int) (incs : Includes K) (ty : VarType) (x : String) (body : List Stmt) :
    List (Val K) → LState K → LRes K (LState K)
  | [], st => .ok st
  | v :: vs, st => do
    let cv ← liftE st.tables (castLoopVal ty v)
    let st := { st with tables := { st.tables with vars := dictSet st.tables.vars x cv } }
    let st ← body.foldlM (execStmt o incs) st
    execLoopVals o incs ty x body vs st

/-- values listed by a loop header, before conversion -/
def loopVals (T : Tables K) : LoopHeader → Except Err (List (Val K))
  | .range a b c =>
    let c' := match c with | some c => digitsToNat c | none => 1
    if c' = 0 then .error .value
    else .ok ((rangeVals (digitsToNat a) (digitsToNat b) c').map
                fun (n : Nat) => (Val.atom (.num (.int (Int.ofNat n))) : Val K))
  | .list _ vs _ => vs.mapM (evalArgVal T)

def LoopHeader.pars : LoopHeader → List String
  | .range _ _ _ => []
  | .list _ vs _ => vs.flatMap ArgVal.pars

/-- `exitForloop` (repaired: an empty loop does not fail on deleting its variable) -/
def execLoop (o : SetOrder Int) (incs : Includes K) (st : LState K) (ty : VarType) (x : String) (h : LoopHeader)
    (body : List Stmt) : LRes K (LState K) := do
  let T := st.tables
  let T' : Tables K := { T with params := T.params ++ h.pars.map .sym }
  let raw ← liftE T' (loopVals T h)
  let st ← execLoopVals o incs ty x body raw { st with tables := T' }
  .ok { st with tables := { st.tables with vars := dictErase st.tables.vars x } }

/-- reserved-name check shared by scalar and array declarations -/
def checkName (T : Tables K) (n : VName) : LRes K Unit :=
  match n.kind with
  | .plain => .ok ()
  | .regref => .error (.syntax .reservedRegref n.text n.pos, T)
  | .reserved => .error (.syntax .reservedKeyword n.text n.pos, T)

/-- `exitExpressionvar`: the tables afterwards -/
def varEffect (T : Tables K) (ty : VarType) (n : VName) (init : ArgVal) : LRes K (Tables K) := do
  checkName T n
  let T' : Tables K := { T with params := T.params ++ init.pars.map .sym }
  let v ← liftE T' (evalArgVal T init)
  let fv ← liftE T' (castScalar ty v)
  .ok { T' with vars := dictSet T'.vars n.text fv }

def execVar (st : LState K) (ty : VarType) (n : VName) (init : ArgVal) : LRes K (LState K) :=
  match varEffect st.tables ty n init with
  | .ok T' => .ok { st with tables := T' }
  | .error e => .error e

def allSameLength {α} : List (List α) → Bool
  | [] => true
  | r :: rs => rs.all (·.length = r.length)

/-- elements of one written row: bare `{p}` entries are parameters, the rest are values -/
inductive RowElem (K : Type) | val (v : Num K) | par (p : String)

def dtypeOf : VarType → Option DType
  | .int => some .int | .float => some .float | .complex => some .complex | _ => none

inductive AssembleErr | ragged | shape | empty
  deriving DecidableEq, Repr

/-- the layout part of `exitArrayvar`: rows of equal length (repaired: checked explicitly),
`reshape(array_rows, -1)`, comparison with the declared shape -/
def assemble {K : Type} (dt : DType) (shp : Option (List Nat)) (crows : List (List (SExpr K))) :
    Except AssembleErr (Val K) :=
  if !allSameLength crows then .error .ragged
  else
    match crows with
    | [] => .error .empty
    | r0 :: _ =>
      let nr := crows.length
      let nc := r0.length
      match shp with
      | some s => if s ≠ [nr, nc] then .error .shape else .ok (.arr dt nr nc (crows.flatMap id))
      | none => .ok (.arr dt nr nc (crows.flatMap id))

/-- parameters one written array element registers: a bare `{p}`, or those inside an expression -/
def elemPars : Expr → List String
  | .par p => [p]
  | e => e.pars

/-- one written array element evaluated: a bare `{p}` stays a parameter, anything else a value -/
def evalElem (T : Tables K) : Expr → Except Err (Option (Val K) × Option String)
  | .par p => .ok (none, some p)
  | e => do .ok (some (← evalExpr T e), none)

/-- cast of one evaluated element to the array's type -/
def castRowElem (ty : VarType) (name : String) (pos : Pos) :
    Option (Val K) × Option String → Except Err (SExpr K)
  | (_, some p) => .ok (.par p)
  | (some v, none) => match castElem ty v with
                      | .ok e => .ok (.num e)
                      | .typeErr => .error (.syntax .arrayType name pos)
                      | .ood => .error (.ood "array element not modelled")
  | (none, none) => .error (.ood "unreachable")

/-- storing the finished array; a p-array of a tdm program is registered by name -/
def finishArr (tdm : Bool) (name : String) (T : Tables K) (v : Val K) : Tables K :=
  let T : Tables K := if tdm && isPType name then { T with params := T.params ++ [.pname name] } else T
  { T with vars := dictSet T.vars name v }

/-- `exitArrayvar` (repaired: parameter positions, row-length check) -/
def arrEffect (tdm : Bool) (T : Tables K) (ty : VarType) (pos : Pos) (n : VName)
    (shape : Option (List String)) (body : ArrBody) : LRes K (Tables K) := do
  checkName T n
  match body with
  | .bare _ => .error (.attribute, T)      -- `ctx.arrayval()` is None for this alternative
  | .rows rows =>
    let pars := rows.flatMap fun r => r.flatMap elemPars
    let T' : Tables K := { T with params := T.params ++ pars.map .sym }
    -- evaluate
    let erows ← liftE T' (rows.mapM fun r => r.mapM (evalElem T))
    let some dt := dtypeOf ty | .error (.ood "array of non-numeric type", T')
    -- cast values
    let crows ← liftE T' (erows.mapM fun r => r.mapM (castRowElem ty n.text pos))
    let nvals := (erows.flatMap id).filter (fun x => x.2.isNone) |>.length
    let parsHere := (erows.flatMap id).filterMap (·.2)
    let shp := shape.map (·.map digitsToNat)
    if nvals = 0 && parsHere.length = 1 then
      -- whole-array parameter
      match shp, parsHere with
      | none, _ => .error (.syntax .noShape n.text pos, T')
      | some [r, c], [p] =>
        let flat : List (SExpr K) := (rangeNat r).flatMap fun i => (rangeNat c).map fun j =>
          SExpr.par (p ++ "_" ++ toString i ++ "_" ++ toString j)
        let names := (rangeNat r).flatMap fun i => (rangeNat c).map fun j =>
          PEntry.sym (p ++ "_" ++ toString i ++ "_" ++ toString j)
        let T'' : Tables K := { T' with params := (T'.params ++ names).erase (.sym p) }
        .ok (finishArr tdm n.text T'' (.arr .object r c flat))
      | _, _ => .error (.ood "whole-array parameter with a shape that is not two-dimensional", T')
    else
      match assemble (if parsHere.isEmpty then dt else .object) shp crows with
      | .ok v => .ok (finishArr tdm n.text T' v)
      | .error .ragged => .error (.syntax .ragged n.text pos, T')
      | .error .shape => .error (.syntax .shapeMismatch n.text pos, T')
      | .error .empty => .error (.value, T')              -- reshape(0, -1)

/-- `exitArrayvar` -/
def execArr (tdm : Bool) (st : LState K) (ty : VarType) (pos : Pos) (n : VName)
    (shape : Option (List String)) (body : ArrBody) : LRes K (LState K) :=
  match arrEffect tdm st.tables ty pos n shape body with
  | .ok T' => .ok { st with tables := T' }
  | .error e => .error e

def execItem (o : SetOrder Int) (tdm : Bool) (incs : Includes K) (st : LState K) : Item → LRes K (LState K)
  | .var ty n init => execVar st ty n init
  | .arr ty pos n shape body => execArr tdm st ty pos n shape body
  | .stmt s => execStmt o incs st s
  | .loop ty x h body => execLoop o incs st ty x h body

/-! ### paths and files -/

def pathJoin (a b : String) : String :=
  if b.startsWith "/" then b
  else if a = "" then b
  else if a.endsWith "/" then a ++ b
  else a ++ "/" ++ b

/-- `os.path.dirname` (POSIX) -/
def pathDirname (p : String) : String :=
  let cs := p.toList
  -- index after the last '/'
  let rec lastSlash (i : Nat) (rest : List Char) (best : Option Nat) : Option Nat :=
    match rest with
    | [] => best
    | c :: r => lastSlash (i + 1) r (if c = '/' then some (i + 1) else best)
  match lastSlash 0 cs none with
  | none => ""
  | some i =>
    let head := cs.take i
    -- strip trailing slashes unless the head is all slashes
    if head.all (· = '/') then String.ofList head
    else String.ofList (head.reverse.dropWhile (· = '/')).reverse

/-- normalise an absolute-or-relative path against the process directory (`os.path.abspath`) -/
def pathNormalise (procCwd p : String) : String :=
  let full := if p.startsWith "/" then p else procCwd ++ "/" ++ p
  let parts := full.splitOn "/"
  let stack := parts.foldl (fun acc part =>
    if part = "" || part = "." then acc
    else if part = ".." then acc.dropLast
    else acc ++ [part]) ([] : List String)
  "/" ++ "/".intercalate stack

/-- file system as seen by `load` / `include`: normalised absolute path ↦ parse result
(`none` = the file is not a sentence of the grammar) -/
structure FS where
  procCwd : String
  files : List (String × Option Script)

def FS.read (fs : FS) (path : String) : Option (Option Script) :=
  dictGet fs.files (pathNormalise fs.procCwd path)

/-! ### whole scripts -/

def evalOptions (T : Tables K) : Option (String × Option Args) →
    Except Err (Option String × List (String × Val K))
  | none => .ok (none, [])
  | some (n, none) => .ok (some n, [])
  | some (n, some a) => do
    let (_, kw) ← evalArgs T a
    .ok (some n, kw)

def optPars : Option (String × Option Args) → List String
  | some (_, some a) => a.pars
  | _ => []

/-- `exitInclude` for one include line; `rec` parses and walks the included file -/
def includeStep (fs : FS)
    (rec : String → Tables K → Script → LRes K (Program K × Tables K × Includes K))
    (cwd : String) (acc : Tables K × Includes K) (raw : String) :
    LRes K (Tables K × Includes K) :=
  let (T, incs) := acc
  let inner := String.ofList ((raw.toList.drop 1).dropLast)
  let filename := pathJoin cwd inner
  if incs.any (fun e => e.2.1 = filename) then .ok (T, incs)
  else
    match fs.read filename with
    | none => .error (.file, T)
    | some none => .error (.syntax .grammar "" ⟨0, 0⟩, T)
    | some (some sc) =>
      match rec (pathDirname filename) T sc with
      | .error e => .error e
      | .ok (bb, T', sub) =>
        let incs := dictSet incs bb.name (filename, bb)
        let incs := sub.foldl (fun d e => dictSet d e.1 e.2) incs
        .ok (T', incs)

/-- walk one parse tree with a fresh listener whose directory is `cwd`, starting from
tables `T` (shared module state); returns the program, the tables afterwards and the
listener's include dictionary. The fuel bounds the include depth. -/
def runScript (o : SetOrder Int) (fs : FS) : Nat → String → Tables K → Script →
    LRes K (Program K × Tables K × Includes K)
  | 0, _, T, _ => .error (.ood "include depth", T)
  | fuel + 1, cwd, T, sc => do
    let h := sc.header
    let tgt ← liftE T (evalOptions T h.target)
    let T : Tables K := { T with params := T.params ++ (optPars h.target).map .sym }
    let pty ← liftE T (evalOptions T h.ptype)
    let T : Tables K := { T with params := T.params ++ (optPars h.ptype).map .sym }
    let (_, incs) ← h.includes.foldlM (includeStep fs (runScript o fs fuel) cwd) (T, [])
    -- enterProgram clears the tables
    let st : LState K := ⟨Tables.empty, [], []⟩
    let tdm := pty.1 = some "tdm"
    let st ← sc.items.foldlM (execItem o tdm incs) st
    -- exitProgram
    -- (repaired) only the p-array names, which are stored as strings, are filtered out
    let params := st.tables.params.filterMap fun e =>
      match e with
      | .sym p => some p
      | .pname _ => none
    .ok (⟨h.name, h.version, tgt, pty, st.ops, st.tables.vars, params, st.modes⟩,
         Tables.empty, incs)

/-- `parse()` as repaired: the tables are cleared before anything is evaluated -/
def loadStep (o : SetOrder Int) (fs : FS) (cwd : String) (T : Tables K) (sc : Script) :
    Except Err (Program K) × Tables K :=
  -- `T` is what earlier loads left behind; it is discarded here
  let _ := T
  match runScript o fs 16 cwd (Tables.empty : Tables K) sc with
  | .ok (p, T', _) => (.ok p, T')
  | .error (e, T') => (.error e, T')

end Blackbird
