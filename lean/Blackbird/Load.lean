/-
  Blackbird.Load — `loads` / `load` on texts: lexer, parser and listener composed.
-/
import Blackbird.Lexer
import Blackbird.Parser
import Blackbird.Listener

namespace Blackbird

variable {K : Type} [Scalar K]

def parseText (s : String) : Option Script := parseScript (lex s)

/-- a file system given as texts -/
def mkFS (procCwd : String) (files : List (String × String)) : FS :=
  ⟨procCwd, files.map fun f => (pathNormalise procCwd f.1, parseText f.2)⟩

def grammarErr : Err := .syntax .grammar "" ⟨0, 0⟩

/-- `blackbird.loads(text)`: the listener's directory is the process directory -/
def loadsText (fs : FS) (T : Tables K) (text : String) : Except Err (Program K) × Tables K :=
  match parseText text with
  | none => (.error grammarErr, T)
  | some sc => loadStep SetOrder.id fs fs.procCwd T sc

/-- `blackbird.load(filename)` -/
def loadFile (fs : FS) (T : Tables K) (filename : String) : Except Err (Program K) × Tables K :=
  match fs.read filename with
  | none => (.error .file, T)
  | some none => (.error grammarErr, T)
  | some (some sc) => loadStep SetOrder.id fs (pathDirname filename) T sc

end Blackbird
