/-
  Blackbird.Match — mirror of `utils.match_template`.

  The graph isomorphism found by networkx is replaced by the canonical label isomorphism
  (k-th operation with a given (name, modes) label ↦ k-th operation with that label); property
  C17's theorem `label_iso_unique` shows every label-preserving isomorphism equals it when
  every operation acts on at least one mode.
-/
import Blackbird.Graph

namespace Blackbird

variable {K : Type} [Scalar K]

def Num.eqv (a b : Num K) : Bool :=
  match a, b with
  | .int x, .int y => x = y
  | .cplx a b, y => let c := y.toCplx; Scalar.solveEq a c.1 && Scalar.solveEq b c.2
  | x, .cplx c d => let a := x.toCplx; Scalar.solveEq a.1 c && Scalar.solveEq a.2 d
  | x, y => match x.toReal, y.toReal with
            | some u, some v => Scalar.solveEq u v
            | _, _ => false

/-- Python `==` on matched values, as far as the matcher can meet them -/
def valEqv : Val K → Val K → Bool
  | .atom (.num a), .atom (.num b) => Num.eqv a b
  | .atom (.str a), .atom (.str b) => a = b
  | .atom (.pname a), .atom (.pname b) => a = b
  | .atom (.str a), .atom (.pname b) => a = b
  | .atom (.pname a), .atom (.str b) => a = b
  | .atom (.bool a), .atom (.bool b) => a = b
  | _, _ => false

/-- coefficients `(a, b)` of `e = a * p + b` for an expression in the single parameter `p`;
`none` when the expression is not affine in this syntactic sense -/
def affine (p : String) : SExpr K → Option (Num K × Num K)
  | .num n => some (.int 0, n)
  | .par q => if q = p then some (.int 1, .int 0) else none
  | .reg _ => none
  | .neg a => match affine p a with
              | some (x, y) => some (x.neg, y.neg)
              | none => none
  | .add a b => match affine p a, affine p b with
                | some (x, y), some (u, v) => some (x.add u, y.add v)
                | _, _ => none
  | .mul a b =>
    match affine p a, affine p b with
    | some (x, y), some (u, v) =>
      -- (x p + y)(u p + v): affine when one side is constant
      if a.pars.isEmpty then some (y.mul u, y.mul v)
      else if b.pars.isEmpty then some (x.mul v, y.mul v)
      else none
    | _, _ => none
  | .pow a b =>
    -- only a constant power of a constant is affine; `c * p**1` is not written by templates
    if a.pars.isEmpty && b.pars.isEmpty then
      match affine p a, affine p b with
      | some (_, y), some (_, v) => match Num.pow y v with
                                    | .ok r => some (.int 0, r)
                                    | .error _ => none
      | _, _ => none
    else none

/-- solve `a * p + b = y` for `p` -/
def solveAffine (a b y : Num K) : Num K := (y.add b.neg).div a

abbrev ArgMatch (K : Type) := List (String × Val K)

/-- one (template argument, program argument) pair -/
def matchArg (am : ArgMatch K) (x y : Val K) : Except Err (ArgMatch K) :=
  let record (key : String) (val : Val K) : Except Err (ArgMatch K) :=
    match dictGet am key with
    | some old => if valEqv old val then .ok (dictSet am key val) else .error .template
    | none => .ok (dictSet am key val)
  match x with
  | .atom (.sym (.par p)) => record p y
  | .atom (.sym e) =>
    match dedupStr e.pars with
    | [p] =>
      match y, affine p e with
      | .atom (.num yn), some (a, b) => record p (.atom (.num (solveAffine a b yn)))
      | _, _ => .error (.ood "non-affine template argument or non-numeric program argument")
    | [] => .ok am
    | _ => .error .template
  | _ => .ok am

def matchArgs : ArgMatch K → List (Val K) → List (Val K) → Except Err (ArgMatch K)
  | am, x :: xs, y :: ys => do matchArgs (← matchArg am x y) xs ys
  | am, _, _ => .ok am

/-- label of a node for `node_match` -/
def opLabel (o : Op K) : String × List Int := (o.name, o.modes)

/-- index in `l` of the `k`-th element with label `lab` -/
def nthWithLabel (l : List (Nat × Op K)) (lab : String × List Int) (k : Nat) : Option Nat :=
  ((l.filter fun n => opLabel n.2 = lab)[k]?).map (·.1)

/-- occurrence number of node `i` among the nodes carrying its label -/
def occurrence (l : List (Nat × Op K)) (i : Nat) (lab : String × List Int) : Nat :=
  ((l.filter fun n => opLabel n.2 = lab).takeWhile fun n => n.1 ≠ i).length

/-- the canonical label isomorphism as a list of pairs, when label multiplicities agree -/
def labelIso (g1 g2 : DiGraph K) : Option (List (Nat × Nat)) :=
  if g1.nodes.length ≠ g2.nodes.length then none else
  g1.nodes.mapM fun n =>
    match nthWithLabel g2.nodes (opLabel n.2) (occurrence g1.nodes n.1 (opLabel n.2)) with
    | some j => some (n.1, j)
    | none => none

def mapEdge (f : List (Nat × Nat)) (e : Nat × Nat) : Option (Nat × Nat) :=
  match f.find? (·.1 = e.1), f.find? (·.1 = e.2) with
  | some a, some b => some (a.2, b.2)
  | _, _ => none

def edgeSubset (a b : List (Nat × Nat)) : Bool := a.all fun e => b.contains e

/-- `match_template(template, program)` -/
def matchTemplate (t p : Program K) : Except Err (ArgMatch K) × Program K × Program K :=
  let res : Except Err (ArgMatch K) :=
    if !t.isTemplate then .error .template
    else if p.isTemplate then .error .template
    else if t.version ≠ p.version then .error .template
    else if t.target.1 ≠ p.target.1 then .error .template
    else
      let g1 := (toDiGraph t).1
      let g2 := (toDiGraph p).1
      match labelIso g1 g2 with
      | none => .error .template
      | some f =>
        match g1.edges.mapM (mapEdge f) with
        | none => .error .template
        | some img =>
          if !(edgeSubset img g2.edges && edgeSubset g2.edges img) then .error .template
          else do
            let am ← f.foldlM (fun am pr =>
              match t.ops[pr.1]?, p.ops[pr.2]? with
              | some o1, some o2 =>
                matchArgs am (match o1.args with | some a => a.1 | none => [])
                             (match o2.args with | some a => a.1 | none => [])
              | _, _ => .ok am) ([] : ArgMatch K)
            -- p-array values substituted for matched names
            .ok (am.map fun kv =>
              match kv.2 with
              | .atom (.str s) => match dictGet p.vars s with
                                  | some v => (kv.1, v)
                                  | none => kv
              | .atom (.pname s) => match dictGet p.vars s with
                                    | some v => (kv.1, v)
                                    | none => kv
              | _ => kv)
  (res, t, p)

end Blackbird
