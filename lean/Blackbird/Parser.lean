/-
  Blackbird.Parser — a recursive-descent parser for the parser rules of `src/blackbird.g4`,
  producing the AST of `Blackbird.Syntax`.

  ANTLR's ALL(*) engine accepts exactly the context-free language of the grammar; the places
  where one token of look-ahead is not enough are listed in DESIGN.md appendix C and are
  handled here by bounded look-ahead (never by unbounded backtracking):
  * `vartype TYPE_ARRAY` decides between `expressionvar` and `arrayvar`;
  * `NAME ASSIGN` starts a `kwarg`;
  * a `(` after `|` / `in` may open the mode/value list or a bracketed expression
    (`bracketed`);
  * the NEWLINE before `TAB` belongs to the enclosing for-loop (`eatNL`).
  Expressions: stratified precedence climbing (brackets/atoms, unary sign, right-assoc `**`,
  `* /`, `+ -`), which is what ANTLR's left-recursion rewrite of `expression` accepts.
-/
import Blackbird.Syntax

namespace Blackbird

def hdKind : List Tok → TokKind
  | [] => .EOF
  | t :: _ => t.kind

/-- consume one token of the given kind -/
def expect (k : TokKind) : List Tok → Option (Tok × List Tok)
  | t :: ts => if t.kind = k then some (t, ts) else none
  | [] => none

mutual
  /-- atoms: brackets, function application, number, register, name, index, parameter -/
  def pAtom : Nat → List Tok → Option (Expr × List Tok)
    | 0, _ => none
    | _, [] => none
    | n + 1, t :: ts =>
      match t.kind with
      | .LBRAC =>
        match pAdd n ts with
        | some (e, r :: rs) => if r.kind = .RBRAC then some (.brk e, rs) else none
        | _ => none
      | .INT => some (.num .int t.text, ts)
      | .FLOAT => some (.num .float t.text, ts)
      | .COMPLEX => some (.num .complex t.text, ts)
      | .PI => some (.num .pi t.text, ts)
      | .REGREF => some (.reg t.text, ts)
      | .NAME =>
        if hdKind ts = .LSQBRAC then
          match pAdd n ts.tail with
          | some (e, r :: rs) => if r.kind = .RSQBRAC then some (.idx t.text t.pos e, rs) else none
          | _ => none
        else some (.var t.text t.pos, ts)
      | .LBRACE =>
        match ts with
        | a :: b :: rs =>
          if a.kind = .NAME && b.kind = .RBRACE then some (.par a.text, rs) else none
        | _ => none
      | k =>
        match Fn.ofTok k with
        | some f =>
          if hdKind ts = .LBRAC then
            match pAdd n ts.tail with
            | some (e, r :: rs) => if r.kind = .RBRAC then some (.fn f e, rs) else none
            | _ => none
          else none
        | none => none

  def pUnary : Nat → List Tok → Option (Expr × List Tok)
    | 0, _ => none
    | _, [] => none
    | n + 1, t :: ts =>
      match t.kind with
      | .PLUS => match pUnary n ts with
                 | some (e, rs) => some (.pos e, rs)
                 | none => none
      | .MINUS => match pUnary n ts with
                  | some (e, rs) => some (.neg e, rs)
                  | none => none
      | _ => pAtom n (t :: ts)

  def pPow : Nat → List Tok → Option (Expr × List Tok)
    | 0, _ => none
    | n + 1, ts =>
      match pUnary n ts with
      | some (a, rs) =>
        if hdKind rs = .PWR then
          match pPow n rs.tail with
          | some (b, rs') => some (.pow a b, rs')
          | none => none
        else some (a, rs)
      | none => none

  def pMulLoop : Nat → Expr → List Tok → Option (Expr × List Tok)
    | 0, _, _ => none
    | n + 1, a, ts =>
      match hdKind ts with
      | .TIMES => match pPow n ts.tail with
                  | some (b, rs) => pMulLoop n (.mul a b) rs
                  | none => none
      | .DIVIDE => match pPow n ts.tail with
                   | some (b, rs) => pMulLoop n (.div a b) rs
                   | none => none
      | _ => some (a, ts)

  def pMul : Nat → List Tok → Option (Expr × List Tok)
    | 0, _ => none
    | n + 1, ts =>
      match pPow n ts with
      | some (a, rs) => pMulLoop n a rs
      | none => none

  def pAddLoop : Nat → Expr → List Tok → Option (Expr × List Tok)
    | 0, _, _ => none
    | n + 1, a, ts =>
      match hdKind ts with
      | .PLUS => match pMul n ts.tail with
                 | some (b, rs) => pAddLoop n (.add a b) rs
                 | none => none
      | .MINUS => match pMul n ts.tail with
                  | some (b, rs) => pAddLoop n (.sub a b) rs
                  | none => none
      | _ => some (a, ts)

  def pAdd : Nat → List Tok → Option (Expr × List Tok)
    | 0, _ => none
    | n + 1, ts =>
      match pMul n ts with
      | some (a, rs) => pAddLoop n a rs
      | none => none
end

/-- fuel that is always enough for the tokens at hand (each call level costs at most one unit
per grammar level per token) -/
def exprFuel (ts : List Tok) : Nat := 8 * ts.length + 8

def pExpr (ts : List Tok) : Option (Expr × List Tok) := pAdd (exprFuel ts) ts

/-- `val : nonnumeric | expression` -/
def pVal (ts : List Tok) : Option (ArgVal × List Tok) :=
  match ts with
  | [] => none
  | t :: rs =>
    match t.kind with
    | .STR => some (.str t.text, rs)
    | .BOOL => some (.bool (t.text == "True"), rs)
    | _ => match pExpr ts with
           | some (e, r) => some (.expr e, r)
           | none => none

/-- `X (COMMA X)*`, strict: after a COMMA another X must follow -/
def pSepGo {α} (p : List Tok → Option (α × List Tok)) : Nat → List α → List Tok → Option (List α × List Tok)
  | 0, _, _ => none
  | n + 1, acc, ts =>
    if hdKind ts = .COMMA then
      match p ts.tail with
      | some (x, rs) => pSepGo p n (x :: acc) rs
      | none => none
    else some (acc.reverse, ts)

def pSep {α} (p : List Tok → Option (α × List Tok)) (ts : List Tok) : Option (List α × List Tok) :=
  match p ts with
  | some (x, rs) => pSepGo p (rs.length + 1) [x] rs
  | none => none

/-- `arrayrow : expression (COMMA expression)*` -/
def pRow (ts : List Tok) : Option (List Expr × List Tok) := pSep pExpr ts
/-- `vallist : val (COMMA val)*` -/
def pVallist (ts : List Tok) : Option (List ArgVal × List Tok) := pSep pVal ts

def isKwStart : List Tok → Bool
  | a :: b :: _ => a.kind = .NAME && b.kind = .ASSIGN
  | _ => false

/-- positional part of `arguments` after the first val: stops (leaving the COMMA) when the
COMMA is followed by a kwarg or by `)` -/
def pPosGo : Nat → List ArgVal → List Tok → Option (List ArgVal × List Tok)
  | 0, _, _ => none
  | n + 1, acc, ts =>
    if hdKind ts = .COMMA then
      if isKwStart ts.tail || hdKind ts.tail = .RBRAC then some (acc.reverse, ts)
      else match pVal ts.tail with
           | some (v, rs) => pPosGo n (v :: acc) rs
           | none => none
    else some (acc.reverse, ts)

/-- `kwarg : NAME ASSIGN (val | LSQBRAC vallist? RSQBRAC)` -/
def pKwarg (ts : List Tok) : Option ((String × KwVal) × List Tok) :=
  match ts with
  | a :: b :: rs =>
    if a.kind = .NAME && b.kind = .ASSIGN then
      if hdKind rs = .LSQBRAC then
        if hdKind rs.tail = .RSQBRAC then some ((a.text, .list []), rs.tail.tail)
        else match pVallist rs.tail with
             | some (vs, r :: r') => if r.kind = .RSQBRAC then some ((a.text, .list vs), r') else none
             | _ => none
      else match pVal rs with
           | some (v, r) => some ((a.text, .one v), r)
           | none => none
    else none
  | _ => none

/-- positional part of `arguments` -/
def pPosPart (ts : List Tok) : Option (List ArgVal × List Tok) :=
  if hdKind ts = .RBRAC || hdKind ts = .COMMA || isKwStart ts then some ([], ts)
  else match pVal ts with
       | some (v, rs) => pPosGo (rs.length + 1) [v] rs
       | none => none

/-- the optional COMMA between the positional and the keyword part -/
def dropComma (ts : List Tok) : List Tok := if hdKind ts = .COMMA then ts.tail else ts

/-- keyword part of `arguments` -/
def pKwPart (ts : List Tok) : Option (List (String × KwVal) × List Tok) :=
  if isKwStart ts then pSep pKwarg ts else some ([], ts)

/-- `arguments`, called with the token after `(` -/
def pArgsBody (ts : List Tok) : Option (Args × List Tok) :=
  match pPosPart ts with
  | none => none
  | some (vals, r1) =>
    match pKwPart (dropComma r1) with
    | some (kws, t :: r4) => if t.kind = .RBRAC then some (⟨vals, kws⟩, r4) else none
    | _ => none

/-- `arguments?` -/
def pOptArgs (ts : List Tok) : Option (Option Args × List Tok) :=
  if hdKind ts = .LBRAC then
    match pArgsBody ts.tail with
    | some (a, rs) => some (some a, rs)
    | none => none
  else some (none, ts)

def closeBrk (ts : List Tok) : Option Brk × List Tok :=
  match hdKind ts with
  | .RBRAC => (some .round, ts.tail)
  | .RSQBRAC => (some .square, ts.tail)
  | _ => (none, ts)

/-- `(LBRAC|LSQBRAC)? row (RBRAC|RSQBRAC)?` where `row` may itself start with `(`.
`follow` tells which token kinds may come after the construct. -/
def bracketed {α} (row : List Tok → Option (α × List Tok)) (follow : TokKind → Bool)
    (ts : List Tok) : Option ((Option Brk × α × Option Brk) × List Tok) :=
  let plain : Option ((Option Brk × α × Option Brk) × List Tok) :=
    match row ts with
    | some (x, rs) => let (c, r) := closeBrk rs; some ((none, x, c), r)
    | none => none
  match hdKind ts with
  | .LSQBRAC =>
    match row ts.tail with
    | some (x, rs) => let (c, r) := closeBrk rs; some ((some .square, x, c), r)
    | none => none
  | .LBRAC =>
    match row ts.tail with
    | some (x, rs) =>
      let (c, r) := closeBrk rs
      if follow (hdKind r) then some ((some .round, x, c), r) else plain
    | none => plain
  | _ => plain

/-- statement's trailing `NEWLINE*`: the NEWLINE directly before a TAB is left for the loop -/
def eatNL : List Tok → List Tok
  | [] => []
  | [t] => if t.kind = .NEWLINE then [] else [t]
  | t1 :: t2 :: rest =>
    if t1.kind = .NEWLINE then
      if t2.kind = .TAB then t1 :: t2 :: rest else eatNL (t2 :: rest)
    else t1 :: t2 :: rest

def stmtFollow (k : TokKind) : Bool :=
  k = .NEWLINE || k = .EOF || k = .FOR || k = .NAME || k = .MEASURE || (VarType.ofTok k).isSome

/-- `statement`, called at the NAME / MEASURE token -/
def pStmt (ts : List Tok) : Option (Stmt × List Tok) :=
  match ts with
  | [] => none
  | t :: rs =>
    if t.kind = .NAME || t.kind = .MEASURE then
      match pOptArgs rs with
      | none => none
      | some (args, r1) =>
        match expect .APPLY r1 with
        | none => none
        | some (_, r2) =>
          match bracketed pRow stmtFollow r2 with
          | none => none
          | some ((lb, modes, rb), r3) =>
            some (⟨t.text, t.kind = .MEASURE, args, lb, modes, rb⟩, eatNL r3)
    else none

def isNameTok (k : TokKind) : Option NameKind :=
  match k with
  | .NAME => some .plain
  | .REGREF => some .regref
  | .PROGNAME | .VERSION | .TARGET | .PROGTYPE => some .reserved
  | _ => none

def pName (ts : List Tok) : Option (VName × List Tok) :=
  match ts with
  | t :: rs => match isNameTok t.kind with
               | some k => some (⟨k, t.kind, t.text, t.pos⟩, rs)
               | none => none
  | [] => none

/-- rows of `arrayval : (TAB arrayrow NEWLINE)*` -/
def pRows : Nat → List (List Expr) → List Tok → Option (List (List Expr) × List Tok)
  | 0, _, _ => none
  | n + 1, acc, ts =>
    if hdKind ts = .TAB then
      match pRow ts.tail with
      | some (row, r :: rs) => if r.kind = .NEWLINE then pRows n (row :: acc) rs else none
      | _ => none
    else some (acc.reverse, ts)

/-- `shape : INT (COMMA INT)*` -/
def pInt (ts : List Tok) : Option (String × List Tok) :=
  match ts with
  | t :: rs => if t.kind = .INT then some (t.text, rs) else none
  | [] => none

/-- optional `[ shape ]` of an `arrayvar` -/
def pShapePart (r1 : List Tok) : Option (Option (List String) × List Tok) :=
  if hdKind r1 = .LSQBRAC then
    match pSep pInt r1.tail with
    | some (sh, c :: r) => if c.kind = .RSQBRAC then some (some sh, r) else none
    | _ => none
  else some (none, r1)

/-- `(arrayval | parameter)` -/
def pArrBody (r3 : List Tok) : Option (ArrBody × List Tok) :=
  if hdKind r3 = .LBRACE then
    match r3 with
    | _ :: p :: c :: r4 => if p.kind = .NAME && c.kind = .RBRACE then some (.bare p.text, r4) else none
    | _ => none
  else
    match pRows (r3.length + 1) [] r3 with
    | some (rows, r4) => some (.rows rows, r4)
    | none => none

/-- `arrayvar` after `vartype TYPE_ARRAY` -/
def pArrDecl (ty : VarType) (pos : Pos) (rs : List Tok) : Option (Item × List Tok) :=
  match pName rs with
  | none => none
  | some (nm, r1) =>
    match pShapePart r1 with
    | none => none
    | some (shape, r2) =>
      match r2 with
      | a :: nl :: r3 =>
        if a.kind = .ASSIGN && nl.kind = .NEWLINE then
          match pArrBody r3 with
          | some (body, r4) => some (.arr ty pos nm shape body, r4)
          | none => none
        else none
      | _ => none

/-- `expressionvar` after `vartype` -/
def pVarDecl (ty : VarType) (rs : List Tok) : Option (Item × List Tok) :=
  match pName rs with
  | none => none
  | some (nm, r1) =>
    match expect .ASSIGN r1 with
    | none => none
    | some (_, r2) =>
      match pVal r2 with
      | some (v, r3) => some (.var ty nm v, r3)
      | none => none

/-- `expressionvar` / `arrayvar`, called at the vartype token -/
def pDecl (ts : List Tok) : Option (Item × List Tok) :=
  match ts with
  | [] => none
  | t :: rs =>
    match VarType.ofTok t.kind with
    | none => none
    | some ty => if hdKind rs = .TYPE_ARRAY then pArrDecl ty t.pos rs.tail else pVarDecl ty rs

/-- loop body `(NEWLINE TAB statement)+` after the first statement has been read -/
def pBodyGo : Nat → List Stmt → List Tok → Option (List Stmt × List Tok)
  | 0, _, _ => none
  | n + 1, acc, ts =>
    match ts with
    | a :: b :: rs =>
      if a.kind = .NEWLINE && b.kind = .TAB then
        match pStmt rs with
        | some (s, r) => pBodyGo n (s :: acc) r
        | none => none
      else some (acc.reverse, ts)
    | _ => some (acc.reverse, ts)

/-- `rangeval | (LBRAC|LSQBRAC)? vallist (RBRAC|RSQBRAC)?` -/
def pLoopHeader (rs : List Tok) : Option (LoopHeader × List Tok) :=
  match rs with
  | a :: c :: r0 =>
    if a.kind = .INT && c.kind = .COLON then
      match r0 with
      | b :: r1 =>
        if b.kind = .INT then
          match r1 with
          | c2 :: s :: r2 =>
            if c2.kind = .COLON then
              if s.kind = .INT then some (.range a.text b.text (some s.text), r2) else none
            else some (.range a.text b.text none, r1)
          | _ => some (.range a.text b.text none, r1)
        else none
      | [] => none
    else
      match bracketed pVallist (fun k => k = .NEWLINE) rs with
      | some ((lb, vs, rb), r) => some (.list lb vs rb, r)
      | none => none
  | _ =>
    match bracketed pVallist (fun k => k = .NEWLINE) rs with
    | some ((lb, vs, rb), r) => some (.list lb vs rb, r)
    | none => none

/-- `(NEWLINE TAB statement)+` -/
def pLoopBody (r1 : List Tok) : Option (List Stmt × List Tok) :=
  match r1 with
  | a :: b :: r2 =>
    if a.kind = .NEWLINE && b.kind = .TAB then
      match pStmt r2 with
      | some (s, r3) => pBodyGo (r3.length + 1) [s] r3
      | none => none
    else none
  | _ => none

/-- `forloop`, called at FOR -/
def pLoop (ts : List Tok) : Option (Item × List Tok) :=
  match ts with
  | f :: ty :: x :: i :: rs =>
    if f.kind = .FOR && x.kind = .NAME && i.kind = .IN then
      match VarType.ofTok ty.kind with
      | none => none
      | some vt =>
        match pLoopHeader rs with
        | none => none
        | some (h, r1) =>
          match pLoopBody r1 with
          | some (body, r4) => some (.loop vt x.text h body, r4)
          | none => none
    else none
  | _ => none

/-- `program`, up to (not including) EOF -/
def pItems : Nat → List Item → List Tok → Option (List Item × List Tok)
  | 0, _, _ => none
  | _, acc, [] => some (acc.reverse, [])
  | n + 1, acc, t :: ts =>
    match t.kind with
    | .EOF => some (acc.reverse, t :: ts)
    | .NEWLINE => pItems n acc ts
    | .FOR => match pLoop (t :: ts) with
              | some (it, rs) => pItems n (it :: acc) rs
              | none => none
    | .NAME | .MEASURE =>
      match pStmt (t :: ts) with
      | some (s, rs) => pItems n (.stmt s :: acc) rs
      | none => none
    | _ =>
      match pDecl (t :: ts) with
      | some (it, rs) => pItems n (it :: acc) rs
      | none => none

def skipNL : List Tok → List Tok
  | [] => []
  | t :: ts => if t.kind = .NEWLINE then skipNL ts else t :: ts

/-- `(NEWLINE | include)*` -/
def pIncludes : Nat → List String → List Tok → List String × List Tok
  | 0, acc, ts => (acc.reverse, ts)
  | n + 1, acc, ts =>
    match ts with
    | a :: rs =>
      if a.kind = .NEWLINE then pIncludes n acc rs
      else if a.kind = .INCLUDE then
        match rs with
        | s :: rs' => if s.kind = .STR then pIncludes n (s.text :: acc) rs' else (acc.reverse, ts)
        | [] => (acc.reverse, ts)
      else (acc.reverse, ts)
    | [] => (acc.reverse, ts)

/-- `(NEWLINE+ KW name arguments?)?` for target (`dev = true`: NAME or DEVICE) and type -/
def pMetaOpt (kw : TokKind) (dev : Bool) (ts : List Tok) :
    Option (Option (String × Option Args) × List Tok) :=
  let r := skipNL ts
  if hdKind ts = .NEWLINE && hdKind r = kw then
    match r.tail with
    | d :: r1 =>
      if d.kind = .NAME || (dev && d.kind = .DEVICE) then
        match pOptArgs r1 with
        | some (a, r2) => some (some (d.text, a), r2)
        | none => none
      else none
    | [] => none
  else some (none, ts)

/-- `metadatablock` (after the leading `NEWLINE*` of `start`) -/
def pMeta (ts : List Tok) : Option (Header × List Tok) :=
  match ts with
  | p :: n :: nl :: r0 =>
    if p.kind = .PROGNAME && n.kind = .NAME && nl.kind = .NEWLINE then
      match skipNL r0 with
      | v :: f :: r1 =>
        if v.kind = .VERSION && f.kind = .FLOAT then
          match pMetaOpt .TARGET true r1 with
          | none => none
          | some (tgt, r2) =>
            match pMetaOpt .PROGTYPE false r2 with
            | none => none
            | some (ty, r3) =>
              let (incs, r4) := pIncludes (r3.length + 1) [] r3
              some (⟨n.text, f.text, tgt, ty, incs⟩, r4)
        else none
      | _ => none
    else none
  | _ => none

/-- `start` on a token list ending in EOF -/
def parseScript (ts : List Tok) : Option Script :=
  match pMeta (skipNL ts) with
  | none => none
  | some (m, r) =>
    match pItems (r.length + 1) [] r with
    | some (items, [e]) => if e.kind = .EOF then some ⟨m, items⟩ else none
    | _ => none

end Blackbird
