/-
  Blackbird.ParserCode — what ANTLR's code generator emits for a decision of the parser ATN.

  The generated recursive-descent code enters an ATN state (`self.state = n` / `setState(n)`)
  and then decides with one of seven control forms; which form belongs to which kind of decision
  state is fixed by the code generator's templates (Python3.stg / Cpp.stg: `OptionalBlock`,
  `StarLoop`, `PlusBlock`, `AltBlock`, `LL1AltBlock`, …):

    optional block `( … )?`  one look-ahead token     if _la==T:                 BLOCK_START (3)
    star loop `( … )*`       one look-ahead token     while _la==T:              STAR_LOOP_ENTRY (10)
    star loop, full prediction                        while _alt!=2 …:           STAR_LOOP_ENTRY (10)
    plus loop `( … )+`       one look-ahead token     while True: … break        PLUS_BLOCK_START (4)
    plus loop, full prediction                        _alt = 1; while _alt!=2 …  PLUS_BLOCK_START (4)
    alternatives, full prediction                     if la_ == 1: … elif …      BLOCK_START (3) / STAR_BLOCK_START (5)
    alternatives, one look-ahead token                if token in […]: … elif …  BLOCK_START (3) / STAR_BLOCK_START (5)

  `controlOK` checks a list of (state entered last, control form), extracted from the generated
  source by harness/translate.py, against a decoded ATN: every form sits on a state of its kind, no
  state decides twice, there are as many control forms as the ATN has decisions, and every decision
  state other than a plus loop's loop-back state (type 11, whose code is the plus block's) is among
  them. A `?` turned into a `*` in the rule code, a dropped or duplicated decision, or rule code
  from another grammar revision all fail it.
-/
import Blackbird.ATN

namespace Blackbird.ATN

def okControl (kind : String) (stype : Nat) : Bool :=
  if kind = "IF" then stype == 3
  else if kind = "WHILE" then stype == 10
  else if kind = "WHILEALT" then stype == 10
  else if kind = "PLUS" then stype == 4
  else if kind = "PLUSALT" then stype == 4
  else if kind = "ALT" then stype == 3 || stype == 5
  else if kind = "SWITCH" then stype == 3 || stype == 5
  else false

def stateType (A : Raw) (n : Nat) : Nat := (A.states.getD n default).stype

def controlOK (A : Raw) (states : List Nat) (kinds : List String) : Bool :=
  states.length == kinds.length &&
  (states.zip kinds).all (fun p => okControl p.2 (stateType A p.1)) &&
  states.eraseDups.length == states.length &&
  states.length == A.decisions.length &&
  (A.decisions.filter fun d => stateType A d != 11).all (states.contains ·)

end Blackbird.ATN
