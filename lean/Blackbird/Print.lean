/-
  Blackbird.Print — printing syntax trees as token sequences (the inverse of `Blackbird.Parser`).
  Tokens that carry no information for the listener get position (0, 0); tokens whose position the
  listener reports (variable names) carry the position stored in the tree.
-/
import Blackbird.Syntax

namespace Blackbird

def mkTok (k : TokKind) (text : String) : Tok := ⟨k, text, ⟨0, 0⟩⟩

/-- binding level of an expression's outermost construct: 0 `+ -`, 1 `* /`, 2 `**`, 3 unary sign,
4 everything that needs no brackets anywhere -/
def Expr.level : Expr → Nat
  | .add _ _ => 0
  | .sub _ _ => 0
  | .mul _ _ => 1
  | .div _ _ => 1
  | .pow _ _ => 2
  | .pos _ => 3
  | .neg _ => 3
  | _ => 4

/-- the tree can be written without further brackets: every operand binds at least as tightly as
its position requires (left-associative `+ - * /`, right-associative `**`, unary sign tighter
than `**`) -/
def Expr.WF : Expr → Bool
  | .add a b => a.WF && b.WF && b.level ≥ 1
  | .sub a b => a.WF && b.WF && b.level ≥ 1
  | .mul a b => a.WF && b.WF && a.level ≥ 1 && b.level ≥ 2
  | .div a b => a.WF && b.WF && a.level ≥ 1 && b.level ≥ 2
  | .pow a b => a.WF && b.WF && a.level ≥ 3 && b.level ≥ 2
  | .pos a => a.WF && a.level ≥ 3
  | .neg a => a.WF && a.level ≥ 3
  | .brk a => a.WF
  | .idx _ _ i => i.WF
  | .fn _ a => a.WF
  | _ => true

def Expr.toks : Expr → List Tok
  | .num k t => [mkTok k.tok t]
  | .var x p => [⟨.NAME, x, p⟩]
  | .reg t => [mkTok .REGREF t]
  | .idx x p i => [⟨.NAME, x, p⟩, mkTok .LSQBRAC "["] ++ i.toks ++ [mkTok .RSQBRAC "]"]
  | .par p => [mkTok .LBRACE "{", mkTok .NAME p, mkTok .RBRACE "}"]
  | .brk e => [mkTok .LBRAC "("] ++ e.toks ++ [mkTok .RBRAC ")"]
  | .pos e => mkTok .PLUS "+" :: e.toks
  | .neg e => mkTok .MINUS "-" :: e.toks
  | .pow a b => a.toks ++ [mkTok .PWR "**"] ++ b.toks
  | .mul a b => a.toks ++ [mkTok .TIMES "*"] ++ b.toks
  | .div a b => a.toks ++ [mkTok .DIVIDE "/"] ++ b.toks
  | .add a b => a.toks ++ [mkTok .PLUS "+"] ++ b.toks
  | .sub a b => a.toks ++ [mkTok .MINUS "-"] ++ b.toks
  | .fn f e => [mkTok f.tok f.name, mkTok .LBRAC "("] ++ e.toks ++ [mkTok .RBRAC ")"]

/-- number of nodes -/
def Expr.size : Expr → Nat
  | .idx _ _ i => i.size + 1
  | .brk e => e.size + 1
  | .pos e => e.size + 1
  | .neg e => e.size + 1
  | .pow a b => a.size + b.size + 1
  | .mul a b => a.size + b.size + 1
  | .div a b => a.size + b.size + 1
  | .add a b => a.size + b.size + 1
  | .sub a b => a.size + b.size + 1
  | .fn _ e => e.size + 1
  | _ => 1

end Blackbird
