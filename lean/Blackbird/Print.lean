/-
  Blackbird.Print — printing syntax trees as token sequences (the inverse of `Blackbird.Parser`).
  Tokens that carry no information for the listener get position (0, 0); tokens whose position the
  listener reports (variable names) carry the position stored in the tree.
-/
import Blackbird.Syntax

namespace Blackbird

def mkTok (k : TokKind) (text : String) : Tok := ⟨k, text, ⟨0, 0⟩⟩

/-- binding level of an expression's outermost construct: 0 `+ -`, 1 `* /`, 2 `**`, 3 unary sign,
4 everything that needs no brackets anywhere -/
def Expr.level : Expr → Nat
  | .add _ _ => 0
  | .sub _ _ => 0
  | .mul _ _ => 1
  | .div _ _ => 1
  | .pow _ _ => 2
  | .pos _ => 3
  | .neg _ => 3
  | _ => 4

/-- the tree can be written without further brackets: every operand binds at least as tightly as
its position requires (left-associative `+ - * /`, right-associative `**`, unary sign tighter
than `**`) -/
def Expr.WF : Expr → Bool
  | .add a b => a.WF && b.WF && b.level ≥ 1
  | .sub a b => a.WF && b.WF && b.level ≥ 1
  | .mul a b => a.WF && b.WF && a.level ≥ 1 && b.level ≥ 2
  | .div a b => a.WF && b.WF && a.level ≥ 1 && b.level ≥ 2
  | .pow a b => a.WF && b.WF && a.level ≥ 3 && b.level ≥ 2
  | .pos a => a.WF && a.level ≥ 3
  | .neg a => a.WF && a.level ≥ 3
  | .brk a => a.WF
  | .idx _ _ i => i.WF
  | .fn _ a => a.WF
  | _ => true

def Expr.toks : Expr → List Tok
  | .num k t => [mkTok k.tok t]
  | .var x p => [⟨.NAME, x, p⟩]
  | .reg t => [mkTok .REGREF t]
  | .idx x p i => [⟨.NAME, x, p⟩, mkTok .LSQBRAC "["] ++ i.toks ++ [mkTok .RSQBRAC "]"]
  | .par p => [mkTok .LBRACE "{", mkTok .NAME p, mkTok .RBRACE "}"]
  | .brk e => [mkTok .LBRAC "("] ++ e.toks ++ [mkTok .RBRAC ")"]
  | .pos e => mkTok .PLUS "+" :: e.toks
  | .neg e => mkTok .MINUS "-" :: e.toks
  | .pow a b => a.toks ++ [mkTok .PWR "**"] ++ b.toks
  | .mul a b => a.toks ++ [mkTok .TIMES "*"] ++ b.toks
  | .div a b => a.toks ++ [mkTok .DIVIDE "/"] ++ b.toks
  | .add a b => a.toks ++ [mkTok .PLUS "+"] ++ b.toks
  | .sub a b => a.toks ++ [mkTok .MINUS "-"] ++ b.toks
  | .fn f e => [mkTok f.tok f.name, mkTok .LBRAC "("] ++ e.toks ++ [mkTok .RBRAC ")"]

/-- number of nodes -/
def Expr.size : Expr → Nat
  | .idx _ _ i => i.size + 1
  | .brk e => e.size + 1
  | .pos e => e.size + 1
  | .neg e => e.size + 1
  | .pow a b => a.size + b.size + 1
  | .mul a b => a.size + b.size + 1
  | .div a b => a.size + b.size + 1
  | .add a b => a.size + b.size + 1
  | .sub a b => a.size + b.size + 1
  | .fn _ e => e.size + 1
  | _ => 1

end Blackbird

namespace Blackbird

/-- `x₀ , x₁ , …` -/
def sepToks {α : Type} (f : α → List Tok) : List α → List Tok
  | [] => []
  | [x] => f x
  | x :: xs => f x ++ mkTok .COMMA "," :: sepToks f xs

def ArgVal.toks : ArgVal → List Tok
  | .expr e => e.toks
  | .str raw => [mkTok .STR raw]
  | .bool b => [mkTok .BOOL (if b then "True" else "False")]

def KwVal.toks : KwVal → List Tok
  | .one v => v.toks
  | .list vs => [mkTok .LSQBRAC "["] ++ sepToks ArgVal.toks vs ++ [mkTok .RSQBRAC "]"]

def kwargToks (kv : String × KwVal) : List Tok :=
  mkTok .NAME kv.1 :: mkTok .ASSIGN "=" :: kv.2.toks

/-- `( vals , kwargs )` in the canonical form: no lone comma -/
def Args.toks (a : Args) : List Tok :=
  let body :=
    match a.pos, a.kw with
    | [], [] => []
    | p, [] => sepToks ArgVal.toks p
    | [], k => sepToks kwargToks k
    | p, k => sepToks ArgVal.toks p ++ mkTok .COMMA "," :: sepToks kwargToks k
  mkTok .LBRAC "(" :: body ++ [mkTok .RBRAC ")"]

def optArgsToks : Option Args → List Tok
  | none => []
  | some a => a.toks

def Brk.openTok : Brk → Tok
  | .round => mkTok .LBRAC "("
  | .square => mkTok .LSQBRAC "["

def Brk.closeTok : Brk → Tok
  | .round => mkTok .RBRAC ")"
  | .square => mkTok .RSQBRAC "]"

def optOpen : Option Brk → List Tok
  | none => []
  | some b => [b.openTok]

def optClose : Option Brk → List Tok
  | none => []
  | some b => [b.closeTok]

/-- a statement without its trailing line ends -/
def Stmt.toks (s : Stmt) : List Tok :=
  mkTok (if s.isMeasure then .MEASURE else .NAME) s.op :: optArgsToks s.args ++
    mkTok .APPLY "|" :: optOpen s.lb ++ sepToks Expr.toks s.modes ++ optClose s.rb

def nl : Tok := mkTok .NEWLINE "\n"
def tab : Tok := mkTok .TAB "    "

def VarType.toToks (ty : VarType) : Tok := mkTok ty.tok ty.name

def VName.toTok (n : VName) : Tok := ⟨n.tok, n.text, n.pos⟩

def LoopHeader.toks : LoopHeader → List Tok
  | .range a b none => [mkTok .INT a, mkTok .COLON ":", mkTok .INT b]
  | .range a b (some c) => [mkTok .INT a, mkTok .COLON ":", mkTok .INT b, mkTok .COLON ":", mkTok .INT c]
  | .list lb vs rb => optOpen lb ++ sepToks ArgVal.toks vs ++ optClose rb

end Blackbird

namespace Blackbird

def shapeToks : Option (List String) → List Tok
  | none => []
  | some sh => [mkTok .LSQBRAC "["] ++ sepToks (fun s => [mkTok .INT s]) sh ++ [mkTok .RSQBRAC "]"]

def rowsToks (rows : List (List Expr)) : List Tok :=
  rows.flatMap fun r => tab :: (sepToks Expr.toks r ++ [nl])

def ArrBody.toks : ArrBody → List Tok
  | .rows rs => rowsToks rs
  | .bare p => [mkTok .LBRACE "{", mkTok .NAME p, mkTok .RBRACE "}"]

/-- loop body: the first statement directly after `NEWLINE TAB`; before each later statement
`1 + g` line ends (g blank lines) and a TAB -/
def bodyToks : List Stmt → List Nat → List Tok
  | [], _ => []
  | s :: rest, gaps =>
    let g := gaps.headD 0
    List.replicate (g + 1) nl ++ tab :: (s.toks ++ bodyToks rest gaps.tail)

/-- tokens of one item; `lay` are the numbers of blank lines between the statements of a loop body -/
def Item.toks (lay : List Nat) : Item → List Tok
  | .var ty n init => ty.toToks :: n.toTok :: mkTok .ASSIGN "=" :: init.toks
  | .arr ty pos n shape body =>
    ⟨ty.tok, ty.name, pos⟩ :: mkTok .TYPE_ARRAY "array" :: n.toTok :: (shapeToks shape ++
      mkTok .ASSIGN "=" :: nl :: body.toks)
  | .stmt s => s.toks
  | .loop ty x h body =>
    match body with
    | [] => []
    | s :: rest =>
      mkTok .FOR "for" :: ty.toToks :: mkTok .NAME x :: mkTok .IN "in" :: (h.toks ++
        nl :: tab :: (s.toks ++ bodyToks rest lay))

/-- items with `g` line ends before each (`gaps`), and `final` line ends at the end -/
def itemsToks : List (Nat × List Nat) → Nat → List Item → List Tok
  | _, final, [] => List.replicate final nl
  | lay, final, it :: rest =>
    let l := lay.headD (0, [])
    List.replicate l.1 nl ++ (it.toks l.2 ++ itemsToks lay.tail final rest)

end Blackbird

namespace Blackbird

/-- layout of the metadata block: numbers of (extra) line ends -/
structure MetaLay where
  lead : Nat          -- before `name`
  afterName : Nat     -- extra line ends after the name line (at least one is always written)
  beforeTarget : Nat
  beforeType : Nat
  beforeInclude : List Nat
  /-- `true`: the device name is a DEVICE token (contains `.` or starts with a digit), else NAME -/
  deviceTok : Bool

def metaOptToks (kw : Tok) (nameKind : TokKind) (extra : Nat) : Option (String × Option Args) → List Tok
  | none => []
  | some (n, a) => List.replicate (extra + 1) nl ++ kw :: mkTok nameKind n :: optArgsToks a

def includesToks : List String → List Nat → List Tok
  | [], _ => []
  | s :: rest, gaps => List.replicate (gaps.headD 0) nl ++ mkTok .INCLUDE "include" :: mkTok .STR s :: includesToks rest gaps.tail

def Header.toks (ml : MetaLay) (h : Header) : List Tok :=
  List.replicate ml.lead nl ++ mkTok .PROGNAME "name" :: mkTok .NAME h.name ::
    (List.replicate (ml.afterName + 1) nl ++ mkTok .VERSION "version" :: mkTok .FLOAT h.version ::
      (metaOptToks (mkTok .TARGET "target") (if ml.deviceTok then .DEVICE else .NAME) ml.beforeTarget h.target ++
        (metaOptToks (mkTok .PROGTYPE "type") .NAME ml.beforeType h.ptype ++
          includesToks h.includes ml.beforeInclude)))

/-- a whole script as tokens, ending with the end-of-input marker -/
def Script.toks (ml : MetaLay) (lay : List (Nat × List Nat)) (final : Nat) (s : Script) : List Tok :=
  s.header.toks ml ++ (itemsToks lay final s.items ++ [mkTok .EOF "<EOF>"])

end Blackbird
