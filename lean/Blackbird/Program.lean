/-
  Blackbird.Program — mirror of `BlackbirdProgram.serialize` and `numpy_to_blackbird`
  (`program.py`, as repaired).

  The serialiser's output is a list of lines, each a list of fragments. Text fragments are the
  serialiser's own characters; number fragments stand for CPython's formatting of a scalar
  (`"{}".format(x)`), which is a contract boundary: the harness renders them with the same
  CPython primitive and compares the result with the real `dumps` text character by character.
  Symbolic fragments stand for SymPy's printing of an expression (compared semantically).
-/
import Blackbird.Listener

namespace Blackbird

inductive Frag (K : Type)
  | txt (s : String)
  | int (i : Int)
  | flt (x : K)
  /-- `"{}{}{}j".format(re, "+-"[im < 0], abs(im))` -/
  | cplx (re im : K)
  /-- `"{}".format(complex(re, im))`, e.g. `(1+2j)` -/
  | pycplx (re im : K)
  /-- SymPy expression printed with parameters in braces -/
  | sym (e : SExpr K)
  /-- register transform printed by SymPy (no braces) -/
  | rrt (e : SExpr K)
  deriving Repr, Inhabited, DecidableEq

abbrev Line (K : Type) := List (Frag K)

variable {K : Type}

def joinFrags (sep : String) : List (List (Frag K)) → List (Frag K)
  | [] => []
  | [x] => x
  | x :: xs => x ++ [.txt sep] ++ joinFrags sep xs

/-- `"{}".format(v)` for a number -/
def fmtNum : Num K → List (Frag K)
  | .int i => [.int i]
  | .real x => [.flt x]
  | .cplx a b => [.pycplx a b]

/-- the `complex` branch of the serialiser -/
def fmtNumC : Num K → List (Frag K)
  | .cplx a b => [.cplx a b]
  | n => fmtNum n

def fmtBool (b : Bool) : Frag K := .txt (if b then "True" else "False")

/-- `_scalar_to_blackbird` -/
def fmtElem : Atom K → List (Frag K)
  | .str s => [.txt ("\"" ++ s ++ "\"")]
  | .pname s => [.txt ("\"" ++ s ++ "\"")]
  | .bool b => [fmtBool b]
  | .num n => fmtNumC n
  | .sym e => [.sym e]

def fmtList (vs : List (Atom K)) : List (Frag K) :=
  [.txt "["] ++ joinFrags ", " (vs.map fmtElem) ++ [.txt "]"]

/-- element of a hoisted array (`numpy_to_blackbird`) -/
def fmtArrElem (dt : DType) (e : SExpr K) : Except Err (List (Frag K)) :=
  match dt, e with
  | .int, .num (.int i) => .ok [.int i]
  | .float, .num (.real x) => .ok [.flt x]
  | .complex, .num (.cplx a b) => .ok [.cplx a b]
  -- arrays containing free parameters: `_scalar_to_blackbird`
  | .object, .num n => .ok (fmtNumC n)
  | .object, e => .ok [.sym e]
  | _, _ => .error .value                  -- "Array … is of unsupported type"

def isNumS : SExpr K → Option (Num K)
  | .num n => some n
  | _ => none

/-- declared element type written for an array with free parameters: that of the most general
numeric element (float if there is none) -/
def objectArrayType (flat : List (SExpr K)) : String :=
  let nums := flat.filterMap isNumS
  if nums.any (fun n => match n with | .cplx _ _ => true | _ => false) then "complex"
  else if !nums.isEmpty && nums.all (fun n => match n with | .int _ => true | _ => false) then "int"
  else "float"

def chunk {α} (n : Nat) : Nat → List α → List (List α)
  | 0, _ => []
  | k + 1, l => l.take n :: chunk n k (l.drop n)

def dtypeName : DType → String
  | .int => "int" | .float => "float" | .complex => "complex" | .object => "object"

/-- `numpy_to_blackbird(A, name)`: header, one line per row, one empty line -/
def arrayDecl (name : String) (dt : DType) (r c : Nat) (flat : List (SExpr K)) :
    Except Err (List (Line K)) := do
  let tyName := if dt = .object then objectArrayType flat else dtypeName dt
  let header : Line K := [.txt (tyName ++ " array " ++ name ++ "[" ++ toString r ++ ", " ++ toString c ++ "] =")]
  let rows ← (chunk c r flat).mapM fun row => do
    let cells ← row.mapM (fmtArrElem dt)
    .ok ([Frag.txt "    "] ++ joinFrags ", " cells)
  .ok ([header] ++ rows ++ [[]])

/-- state of the serialiser's loop over operations -/
structure SerState (K : Type) where
  varCount : Nat
  hoisted : List (Line K)        -- array declarations, in order of insertion
  opLines : List (Line K)

def isPNameStr (s : String) : Bool := isPType s

/-- one positional or keyword value; returns the fragments and the updated hoisting state -/
def fmtArg (tdm : Bool) (kwPos : Bool) (st : SerState K) (v : Val K) :
    Except Err (List (Frag K) × SerState K) :=
  match v with
  | .arr dt r c flat => do
    let name := "A" ++ toString st.varCount
    let decl ← arrayDecl name dt r c flat
    .ok ([.txt name], { st with varCount := st.varCount + 1, hoisted := st.hoisted ++ decl })
  | .atom (.str s) =>
    if tdm && isPNameStr s then .ok ([.txt s], st) else .ok ([.txt ("\"" ++ s ++ "\"")], st)
  | .atom (.pname s) =>
    if tdm && isPNameStr s then .ok ([.txt s], st) else .ok ([.txt ("\"" ++ s ++ "\"")], st)
  | .atom (.num (.cplx a b)) => .ok ([.cplx a b], st)
  | .atom (.sym e) => .ok ([.sym e], st)
  | .atom (.num n) => .ok (fmtNum n, st)
  | .atom (.bool b) => .ok ([fmtBool b], st)
  | .rrt e => .ok ([.rrt e], st)
  | .list vs =>
    if kwPos then .ok (fmtList vs, st)
    else .error (.ood "positional list argument has no syntax")

def fmtArgs (tdm : Bool) (kwPos : Bool) : List (Option String × Val K) → SerState K →
    Except Err (List (List (Frag K)) × SerState K)
  | [], st => .ok ([], st)
  | (k, v) :: rest, st => do
    let (f, st) ← fmtArg tdm kwPos st v
    let f := match k with
      | some k => [Frag.txt (k ++ "=")] ++ f
      | none => f
    let (fs, st) ← fmtArgs tdm kwPos rest st
    .ok (f :: fs, st)

def fmtModes (modes : List Int) : List (Frag K) :=
  match modes with
  | [m] => [.int m]
  | ms => [.txt "["] ++ joinFrags ", " (ms.map fun m => [Frag.int m]) ++ [.txt "]"]

def serOp (tdm : Bool) (st : SerState K) (op : Op K) : Except Err (SerState K) :=
  match op.args with
  | none => .ok { st with opLines := st.opLines ++ [[.txt (op.name ++ " | ")] ++ fmtModes op.modes] }
  | some (pos, kw) => do
    let (a, st) ← fmtArgs tdm false (pos.map fun v => (none, v)) st
    let (k, st) ← fmtArgs tdm true (kw.map fun kv => (some kv.1, kv.2)) st
    let line : Line K := [.txt (op.name ++ "(")] ++ joinFrags ", " (a ++ k) ++ [.txt ") | "] ++ fmtModes op.modes
    .ok { st with opLines := st.opLines ++ [line] }

/-- option value of target / type -/
def fmtOption (v : Val K) : Except Err (List (Frag K)) :=
  match v with
  | .list vs => .ok (fmtList vs)
  | .atom (.str s) => .ok [.txt ("\"" ++ s ++ "\"")]
  | .atom (.pname s) => .ok [.txt ("\"" ++ s ++ "\"")]
  | .atom (.num n) => .ok (fmtNum n)
  | .atom (.bool b) => .ok [fmtBool b]
  | .atom (.sym e) => .ok [.rrt e]          -- printed by SymPy without braces
  | .rrt e => .ok [.rrt e]
  | .arr .. => .error (.ood "array-valued option")

def metaLine (kw : String) (m : Option String × List (String × Val K)) :
    Except Err (List (Line K)) :=
  match m.1 with
  | none => .ok []
  | some name => do
    let opts ← m.2.mapM fun kv => do .ok ([Frag.txt (kv.1 ++ "=")] ++ (← fmtOption kv.2))
    let tail : List (Frag K) := if opts.isEmpty then [] else [.txt " ("] ++ joinFrags ", " opts ++ [.txt ")"]
    .ok [[.txt (kw ++ " " ++ name)] ++ tail]

/-- the tdm variable block -/
def tdmVarLines (vars : List (String × Val K)) : Except Err (List (Line K)) := do
  let blocks ← vars.mapM fun kv =>
    match kv.2 with
    | .arr dt r c flat =>
      if dt = .object then .error .key
      else
        let rows := (chunk c r flat).map fun row =>
          ([Frag.txt "    "] ++ joinFrags ", " (row.map fun e => match e with
            | .num n => fmtNum n
            | e => [Frag.sym e]) : Line K)
        .ok ([[Frag.txt (dtypeName dt ++ " array " ++ kv.1 ++ " =")]] ++ rows)
    | .atom (.num n) =>
      let ty := match n with | .int _ => "int" | .real _ => "float" | .cplx _ _ => "complex"
      .ok [[Frag.txt (ty ++ " " ++ kv.1 ++ " = ")] ++ fmtNumC n]
    | .atom (.bool b) => .ok [[Frag.txt ("bool " ++ kv.1 ++ " = "), fmtBool b]]
    | .atom (.str s) => .ok [[Frag.txt ("str " ++ kv.1 ++ " = \"" ++ s ++ "\"")]]
    | .atom (.sym _) => .error .key
    | _ => .error (.ood "tdm variable of unsupported kind")
  .ok (blocks.flatMap id)

/-- `BlackbirdProgram.serialize()`: the lines of the script (joined by "\n" in the text) -/
def serialize (p : Program K) : Except Err (List (Line K)) := do
  let head : List (Line K) := [[.txt ("name " ++ p.name)], [.txt ("version " ++ p.version)]]
  let tgt ← metaLine "target" p.target
  let typ ← metaLine "type" p.ptype
  let tdm := p.ptype.1 = some "tdm"
  let varBlock ← if tdm then do .ok ((← tdmVarLines p.vars) ++ [[]]) else .ok []
  let st ← p.ops.foldlM (serOp tdm) (⟨0, [], []⟩ : SerState K)
  let body := head ++ tgt ++ typ ++ [[]] ++ st.hoisted ++ varBlock ++ st.opLines
  match body.getLast? with
  | some [] => .ok body
  | _ => .ok (body ++ [[]])

end Blackbird
