/-
  C01 — serialise-then-parse round trip preserves every parsed program, in every generation.

  The program-level theorem is C09's (`C09_serialised_program_loads_back`); here it is read for
  loaded programs and iterated: what a reload returns agrees with the program on everything the
  serialiser reads, so the next generation writes the same script and the round trip is a fixpoint
  from generation 1 on. Symbolic arguments come back as exactly the tree that was written (in the
  model; SymPy's printing and re-simplification of that tree is a contract boundary, compared
  semantically on every run).

  Partial: the theorems cover programs that are not of type tdm (the tdm variable block is
  compared by the oracle and the theorems of C15), arguments of the kinds listed in `Val.argOK` /
  `Val.kwOK`, and parameters that reach an operation (open findings
  C01-parameter-reaches-no-operation and C01-1x1-array-parameter are exactly the excluded cases).
-/
import Blackbird.Props.C09
import Blackbird.Lemmas.UnparseTdm

namespace Blackbird

variable {K : Type} [Scalar K] [Fmt K] [LawfulFmt K]

/-- **Symbolic arguments**: the written form of a parameter expression or register expression
evaluates to exactly the tree it was written from. -/
theorem C01_symbolic_argument_exact (T : Tables K) (e : SExpr K) (hn : e.Norm = true) :
    evalExpr T (exprOfS e) = .ok (sexprToVal e) :=
  eval_exprOfS T e hn

/-- and it names the same template parameters, in the same order -/
theorem C01_symbolic_argument_parameters (e : SExpr K) : (exprOfS e).pars = e.pars := exprOfS_pars e

/-- what the serialiser reads of a program -/
def Program.same (p q : Program K) : Prop :=
  q.name = p.name ∧ q.version = p.version ∧ q.target = p.target ∧ q.ptype = p.ptype ∧ q.ops = p.ops

omit [Scalar K] [LawfulFmt K] in
theorem scriptOf_congr (p q : Program K) (h : p.same q) : scriptOf q = scriptOf p := by
  obtain ⟨h1, h2, h3, h4, h5⟩ := h
  simp only [scriptOf, h1, h2, h3, h4, h5]

omit [Scalar K] [Fmt K] [LawfulFmt K] in
theorem ok_congr (p q : Program K) (h : p.same q) (hp : p.OK) : q.OK := by
  obtain ⟨_, _, h3, h4, h5⟩ := h
  exact ⟨by rw [h5]; exact hp.ops, by rw [h3]; exact hp.target, by rw [h4]; exact hp.ptype, by rw [h4]; exact hp.not_tdm⟩

/-- one generation: serialise, then load in whatever state earlier loads left behind -/
def reload (o : SetOrder Int) (fs : FS) (cwd : String) (T0 : Tables K) (p : Program K) : Except Err (Program K) :=
  match scriptOf p with
  | .ok sc => (loadStep o fs cwd T0 sc).1
  | .error e => .error e

/-- **One generation.** Reloading a covered program succeeds and returns the same name, version,
target, type, options and operations; its free parameters are those the operations mention. -/
theorem C01_reload_same (o : SetOrder Int) (fs : FS) (cwd : String) (T0 : Tables K) (p : Program K) (hp : p.OK) :
    ∃ q, reload o fs cwd T0 p = .ok q ∧ p.same q ∧ q.params = p.ops.flatMap Op.pars ∧
      q.modes = p.ops.flatMap (·.modes) := by
  obtain ⟨sc, hsc⟩ := C09_serialiser_total p hp
  obtain ⟨vars, hl⟩ := load_scriptOf o fs cwd T0 p sc hp hsc
  exact ⟨⟨p.name, p.version, p.target, p.ptype, p.ops, vars, p.ops.flatMap Op.pars, p.ops.flatMap (·.modes)⟩,
    by simp only [reload, hsc, hl], ⟨rfl, rfl, rfl, rfl, rfl⟩, rfl, rfl⟩

/-- the n-th generation -/
def generation (o : SetOrder Int) (fs : FS) (cwd : String) (T0 : Tables K) (p : Program K) : Nat → Except Err (Program K)
  | 0 => .ok p
  | n + 1 => match generation o fs cwd T0 p n with
             | .ok q => reload o fs cwd T0 q
             | .error e => .error e

/-- **Every generation.** For every n, the n-th dumps/loads generation of a covered program
exists and carries the same name, version, target, type, options and operations. -/
theorem C01_every_generation (o : SetOrder Int) (fs : FS) (cwd : String) (T0 : Tables K) (p : Program K) (hp : p.OK)
    (n : Nat) : ∃ q, generation o fs cwd T0 p n = .ok q ∧ p.same q := by
  induction n with
  | zero => exact ⟨p, rfl, rfl, rfl, rfl, rfl, rfl⟩
  | succ n ih =>
    obtain ⟨q, hq, hsame⟩ := ih
    obtain ⟨q', hq', hsame', _⟩ := C01_reload_same o fs cwd T0 q (ok_congr p q hsame hp)
    refine ⟨q', by simp only [generation, hq, hq'], ?_⟩
    obtain ⟨a1, a2, a3, a4, a5⟩ := hsame
    obtain ⟨b1, b2, b3, b4, b5⟩ := hsame'
    exact ⟨b1.trans a1, b2.trans a2, b3.trans a3, b4.trans a4, b5.trans a5⟩

/-- the text is a fixpoint from the first generation on: every generation writes the same script -/
theorem C01_script_fixpoint (o : SetOrder Int) (fs : FS) (cwd : String) (T0 : Tables K) (p : Program K) (hp : p.OK)
    (n : Nat) (q : Program K) (hq : generation o fs cwd T0 p n = .ok q) : scriptOf q = scriptOf p := by
  obtain ⟨q', hq', hsame⟩ := C01_every_generation o fs cwd T0 p hp n
  rw [hq] at hq'
  cases hq'
  exact scriptOf_congr p q hsame

/-- and that script is accepted by the parser under every layout of line ends -/
theorem C01_text_parses (p : Program K) (sc : Script) (hp : p.OK) (hne : ∀ op ∈ p.ops, op.modes ≠ [])
    (h : scriptOf p = .ok sc) (ml : MetaLay) (lay : List (Nat × List Nat)) (final : Nat) :
    parseScript (sc.toks ml lay final) = some sc :=
  parse_scriptOf p sc hp hne h ml lay final

/-- **Programs of type tdm** (variable block, p-arrays by name): reloading the serialised script of
a covered tdm program that reports no parameters and the modes of its operations returns exactly
that program — all eight fields, variables with their data included — so every later generation is
the same program again. -/
theorem C01_tdm_reload_exact (o : SetOrder Int) (fs : FS) (cwd : String) (T0 : Tables K) (p : Program K) (sc : Script)
    (hp : TdmProgramOK p) (hpar : p.params = []) (hmodes : p.modes = p.ops.flatMap (·.modes))
    (h : scriptOfTdm p = .ok sc) : (loadStep o fs cwd T0 sc).1 = .ok p := by
  rw [(load_scriptOfTdm o fs cwd T0 p sc hp h).1]
  cases p
  simp only at hpar hmodes
  subst hpar hmodes
  rfl

/-- non-vacuity: the concrete program of `Props/C09.lean` after three generations -/
example :
    (match generation SetOrder.id ⟨"", []⟩ "" Tables.empty exProgram 3 with
     | .ok q => decide (q.ops = exProgram.ops ∧ q.target = exProgram.target ∧ q.name = "prog")
     | .error _ => false) = true := by
  decide +kernel

end Blackbird
