/-
  C02 — Loading a script yields exactly the program the script denotes.

  `Blackbird.Spec` defines the denotation of statements, loops, declarations and item lists
  without accumulators or listener state. The theorems below show that the listener model computes
  exactly that (refinement, for every script, every include environment, every depth), and then
  read the clauses of the property off the denotation.
-/
import Blackbird.Spec
import Blackbird.Lemmas.ToyScalar

namespace Blackbird

variable {K : Type} [Scalar K]

/-- a listener state after a contribution: operations and modes are appended, the tables replaced -/
def LState.add (st : LState K) (c : Contribution K) : LState K :=
  ⟨c.tables, st.ops ++ c.ops, st.modes ++ c.modes⟩

theorem add_nil (st : LState K) : st.add (Contribution.nil st.tables) = st := by
  cases st; simp [LState.add, Contribution.nil]

theorem add_append (st : LState K) (a b : Contribution K) : (st.add a).add b = st.add (a.append b) := by
  simp [LState.add, Contribution.append, List.append_assoc]

theorem add_tables (st : LState K) (a : Contribution K) : (st.add a).tables = a.tables := rfl

/-! ### refinement -/

/-- `f` (a step of the listener) computes the contribution `g` (its denotation): it appends the
operations and modes, replaces the tables, and fails with the same error -/
def Refines (f : LState K → LRes K (LState K)) (g : Tables K → Except Err (Contribution K)) : Prop :=
  ∀ st, forget (f st) = match g st.tables with
                        | .ok c => .ok (st.add c)
                        | .error e => .error e

theorem Refines.comp {f f' : LState K → LRes K (LState K)} {g g' : Tables K → Except Err (Contribution K)}
    (hf : Refines f g) (hf' : Refines f' g') : Refines (fun st => f st >>= f') (seqDen g g') := by
  intro st
  have h1 := hf st
  show forget (f st >>= f') = match seqDen g g' st.tables with
                              | .ok c => .ok (st.add c)
                              | .error e => .error e
  unfold seqDen
  cases e1 : f st with
  | error e =>
    rw [e1] at h1
    cases e2 : g st.tables with
    | error e' =>
      simp only [e2, forget, Except.error.injEq] at h1
      simp only [bind, Except.bind, forget, h1]
    | ok a => simp [e2, forget] at h1
  | ok st' =>
    rw [e1] at h1
    cases e2 : g st.tables with
    | error e' => simp [e2, forget] at h1
    | ok a =>
      simp only [e2, forget, Except.ok.injEq] at h1
      subst h1
      simp only [bind, Except.bind]
      rw [hf' (st.add a), add_tables]
      cases g' a.tables with
      | error e => rfl
      | ok b => simp only [add_append]

theorem Refines.nil : Refines (K := K) (fun st => .ok st) (fun T => .ok (Contribution.nil T)) := by
  intro st
  simp only [forget, add_nil]

theorem execStmt_refines (o : SetOrder Int) (incs : Includes K) (s : Stmt) :
    Refines (fun st => execStmt o incs st s) (fun T => denoteStmt o incs T s) := by
  intro st
  show forget (execStmt o incs st s) = match denoteStmt o incs st.tables s with
                                       | .ok c => .ok (st.add c)
                                       | .error e => .error e
  unfold execStmt denoteStmt
  cases stmtEffect o incs st.tables s with
  | error e => rfl
  | ok r => obtain ⟨modes, ops⟩ := r; rfl

theorem execStmts_refines (o : SetOrder Int) (incs : Includes K) (body : List Stmt) :
    Refines (fun st => body.foldlM (execStmt o incs) st) (denoteStmts o incs body) := by
  induction body with
  | nil => exact Refines.nil
  | cons s rest ih =>
    show Refines _ (seqDen (fun T => denoteStmt o incs T s) (denoteStmts o incs rest))
    have := Refines.comp (execStmt_refines o incs s) ih
    intro st
    simpa only [List.foldlM_cons] using this st

/-- converting one loop value and binding the variable -/
theorem bindVal_refines (ty : VarType) (x : String) (v : Val K) :
    Refines (fun st => do
        let cv ← liftE st.tables (castLoopVal ty v)
        pure { st with tables := { st.tables with vars := dictSet st.tables.vars x cv } })
      (denoteBind ty x v) := by
  intro st
  simp only [denoteBind]
  cases castLoopVal ty v with
  | error e => rfl
  | ok cv => cases st; simp [liftE, bind, Except.bind, pure, Except.pure, forget, LState.add, Contribution.nil]

theorem execLoopVals_refines (o : SetOrder Int) (incs : Includes K) (ty : VarType) (x : String)
    (body : List Stmt) (vals : List (Val K)) :
    Refines (fun st => execLoopVals o incs ty x body vals st)
      (denoteLoopVals o incs ty x body vals) := by
  induction vals with
  | nil => exact Refines.nil
  | cons v vs ih =>
    show Refines _ (seqDen (seqDen (denoteBind ty x v) (denoteStmts o incs body)) (denoteLoopVals o incs ty x body vs))
    have := Refines.comp (Refines.comp (bindVal_refines ty x v) (execStmts_refines o incs body)) ih
    intro st
    have h := this st
    simp only [execLoopVals]
    simpa only [bind_assoc, pure_bind] using h

theorem execLoop_refines (o : SetOrder Int) (incs : Includes K) (ty : VarType) (x : String)
    (h : LoopHeader) (body : List Stmt) :
    Refines (fun st => execLoop o incs st ty x h body) (fun T => denoteLoop o incs T ty x h body) := by
  intro st
  show forget (execLoop o incs st ty x h body) = match denoteLoop o incs st.tables ty x h body with
                                                 | .ok c => .ok (st.add c)
                                                 | .error e => .error e
  unfold execLoop denoteLoop
  simp only []
  cases hv : loopVals st.tables h with
  | error e => rfl
  | ok raw =>
    simp only [liftE, bind, Except.bind]
    have := execLoopVals_refines o incs ty x body raw
      { st with tables := { st.tables with params := st.tables.params ++ h.pars.map .sym } }
    simp only [] at this
    cases e1 : execLoopVals o incs ty x body raw
        { st with tables := { st.tables with params := st.tables.params ++ h.pars.map .sym } } with
    | error e =>
      rw [e1] at this
      cases e2 : denoteLoopVals o incs ty x body raw
          { st.tables with params := st.tables.params ++ h.pars.map .sym } with
      | error e' => simp only [e2, forget, Except.error.injEq] at this; simp only [forget, this]
      | ok c => simp [e2, forget] at this
    | ok st' =>
      rw [e1] at this
      cases e2 : denoteLoopVals o incs ty x body raw
          { st.tables with params := st.tables.params ++ h.pars.map .sym } with
      | error e' => simp [e2, forget] at this
      | ok c =>
        simp only [e2, forget, Except.ok.injEq] at this
        subst this
        rfl

theorem execVar_refines (ty : VarType) (n : VName) (init : ArgVal) :
    Refines (K := K) (fun st => execVar st ty n init) (fun T => denoteVar T ty n init) := by
  intro st
  show forget (execVar st ty n init) = match denoteVar st.tables ty n init with
                                       | .ok c => .ok (st.add c)
                                       | .error e => .error e
  unfold execVar varEffect denoteVar checkName
  cases n.kind with
  | regref => rfl
  | reserved => rfl
  | plain =>
    simp only [bind, Except.bind, liftE]
    cases evalArgVal st.tables init with
    | error e => rfl
    | ok v =>
      simp only
      cases castScalar ty v with
      | error e => rfl
      | ok fv =>
        cases st
        simp [forget, LState.add, Contribution.nil]

theorem execItem_refines (o : SetOrder Int) (tdm : Bool) (incs : Includes K) (it : Item) :
    Refines (fun st => execItem o tdm incs st it) (fun T => denoteItem o tdm incs T it) := by
  cases it with
  | var ty n init => exact execVar_refines ty n init
  | stmt s => exact execStmt_refines o incs s
  | loop ty x h body => exact execLoop_refines o incs ty x h body
  | arr ty pos n shape body =>
    intro st
    show forget (execItem o tdm incs st (.arr ty pos n shape body)) =
      match denoteItem o tdm incs st.tables (.arr ty pos n shape body) with
      | .ok c => .ok (st.add c)
      | .error e => .error e
    simp only [execItem, execArr, denoteItem]
    cases arrEffect tdm st.tables ty pos n shape body with
    | error e => rfl
    | ok T' => cases st; simp [forget, LState.add, Contribution.nil]

/-- **Refinement.** Walking any list of items from any listener state computes the state plus the
items' denotation (or fails with the same error). -/
theorem C02_items_refine_denotation (o : SetOrder Int) (tdm : Bool) (incs : Includes K) (items : List Item) :
    Refines (fun st => items.foldlM (execItem o tdm incs) st) (denoteItems o tdm incs items) := by
  induction items with
  | nil => exact Refines.nil
  | cons it rest ih =>
    show Refines _ (seqDen (fun T => denoteItem o tdm incs T it) (denoteItems o tdm incs rest))
    have := Refines.comp (execItem_refines o tdm incs it) ih
    intro st
    simpa only [List.foldlM_cons] using this st

/-! ### the clauses of the property, read off the denotation -/

/-- one operation per (non-include) statement, with the written gate name, the written modes in
order as integers and the values of the written arguments -/
theorem C02_statement_denotes_one_operation (o : SetOrder Int) (incs : Includes K) (T : Tables K) (s : Stmt)
    (hinc : dictGet incs s.op = none) (c : Contribution K) (h : denoteStmt o incs T s = .ok c) :
    ∃ modes args, s.modes.mapM (evalMode T) = .ok modes ∧ c.modes = modes ∧
      c.ops = [⟨s.op, args, modes⟩] ∧
      (s.args = none → args = none) ∧
      (∀ a, s.args = some a → ∃ pos kw, evalArgs T a = .ok (pos, kw) ∧
        args = some (pos.map (wrapRRT (T.params ++ stmtPars s)),
                     kw.map fun kv => (kv.1, wrapRRT (T.params ++ stmtPars s) kv.2))) := by
  unfold denoteStmt stmtEffect at h
  cases hm : s.modes.mapM (evalMode T) with
  | error e => simp [hm, bind, Except.bind] at h
  | ok modes =>
    simp only [hm, bind, Except.bind, hinc] at h
    cases ha : s.args with
    | none =>
      simp only [ha, pure, Except.pure, Except.ok.injEq] at h
      subst h
      exact ⟨modes, none, rfl, rfl, rfl, fun _ => rfl, fun a h' => by cases h'⟩
    | some a =>
      simp only [ha] at h
      cases hargs : evalArgs T a with
      | error e => simp [hargs] at h
      | ok r =>
        obtain ⟨pos, kw⟩ := r
        simp only [hargs, pure, Except.pure, Except.ok.injEq] at h
        subst h
        refine ⟨modes, _, rfl, rfl, rfl, (fun h' => by cases h'), ?_⟩
        intro a' h'
        cases h'
        exact ⟨pos, kw, hargs, rfl⟩

/-- the modes of a statement are integers: anything else is refused -/
theorem C02_modes_are_integers (T : Tables K) (e : Expr) (i : Int) (h : evalMode T e = .ok i) :
    evalExpr T e = .ok (.atom (.num (.int i))) := by
  unfold evalMode at h
  cases he : evalExpr T e with
  | error err => simp [he, bind, Except.bind] at h
  | ok v =>
    simp only [he, bind, Except.bind] at h
    split at h <;> first | (cases h; rfl) | cases h

/-- textual order: the denotation of `a ++ b` is the denotation of `a` followed by that of `b`
evaluated in the environment `a` leaves -/
theorem C02_items_in_textual_order (o : SetOrder Int) (tdm : Bool) (incs : Includes K) (a b : List Item) :
    denoteItems o tdm incs (a ++ b) = seqDen (denoteItems o tdm incs a) (denoteItems o tdm incs b) := by
  induction a with
  | nil =>
    funext T
    simp only [List.nil_append, denoteItems, seqDen, Contribution.nil]
    cases denoteItems o tdm incs b T with
    | error e => rfl
    | ok cb => simp [Contribution.append]
  | cons it rest ih =>
    funext T
    simp only [List.cons_append, denoteItems, ih, seqDen]
    cases denoteItem o tdm incs T it with
    | error e => rfl
    | ok c1 =>
      simp only
      cases denoteItems o tdm incs rest c1.tables with
      | error e => rfl
      | ok c2 =>
        simp only [Contribution.append]
        cases denoteItems o tdm incs b c2.tables with
        | error e => rfl
        | ok c3 => simp [List.append_assoc]

/-- a loop denotes its body once per value, in order: convert and bind the value, then the body,
then the remaining values -/
theorem C02_loop_values_in_order (o : SetOrder Int) (incs : Includes K) (ty : VarType) (x : String)
    (body : List Stmt) (v : Val K) (vs : List (Val K)) :
    denoteLoopVals o incs ty x body (v :: vs) =
      seqDen (seqDen (denoteBind ty x v) (denoteStmts o incs body)) (denoteLoopVals o incs ty x body vs) := rfl

/-- the mode set is the union of the modes of the statements: without includes, a mode is reported
exactly when some operation uses it -/
theorem stmt_modes_eq_op_modes (o : SetOrder Int) (T : Tables K) (s : Stmt) (c : Contribution K)
    (h : denoteStmt o ([] : Includes K) T s = .ok c) :
    c.modes = c.ops.flatMap (·.modes) := by
  obtain ⟨modes, args, _, hm, hops, _, _⟩ := C02_statement_denotes_one_operation o [] T s rfl c h
  rw [hm, hops]
  simp

theorem evalOptions_name (T : Tables K) (m : Option (String × Option Args))
    (r : Option String × List (String × Val K)) (h : evalOptions T m = .ok r) : r.1 = m.map (·.1) := by
  cases m with
  | none => simp only [evalOptions, Except.ok.injEq] at h; subst h; rfl
  | some na =>
    obtain ⟨nm, oa⟩ := na
    cases oa with
    | none => simp only [evalOptions, Except.ok.injEq] at h; subst h; rfl
    | some a =>
      simp only [evalOptions, bind, Except.bind] at h
      cases hea : evalArgs T a with
      | error e => simp [hea] at h
      | ok pk => simp only [hea, Except.ok.injEq] at h; subst h; rfl

theorem evalOptions_kw (T : Tables K) (nm : String) (a : Args)
    (r : Option String × List (String × Val K)) (h : evalOptions T (some (nm, some a)) = .ok r) :
    ∃ pos, evalArgs T a = .ok (pos, r.2) := by
  simp only [evalOptions, bind, Except.bind] at h
  cases hea : evalArgs T a with
  | error e => simp [hea] at h
  | ok pk =>
    obtain ⟨pos, kw⟩ := pk
    simp only [hea, Except.ok.injEq] at h
    subst h
    exact ⟨pos, rfl⟩

omit [Scalar K] in
theorem liftE_ok {α : Type} (T : Tables K) (r : Except Err α) (a : α) (h : liftE T r = .ok a) : r = .ok a := by
  cases r with
  | error e => simp [liftE] at h
  | ok b => simp only [liftE, Except.ok.injEq] at h; subst h; rfl

/-- metadata as written, options as the values of the written keyword arguments; the operations
and modes are the denotation of the items; the reported length is the number of operations -/
theorem C02_script_metadata_and_body (o : SetOrder Int) (fs : FS) (fuel : Nat) (cwd : String)
    (T : Tables K) (sc : Script) (p : Program K) (T' : Tables K) (incs : Includes K)
    (h : runScript o fs fuel cwd T sc = .ok (p, T', incs)) :
    p.name = sc.header.name ∧ p.version = sc.header.version ∧
    p.target.1 = sc.header.target.map (·.1) ∧ p.ptype.1 = sc.header.ptype.map (·.1) ∧
    (∀ n a, sc.header.target = some (n, some a) → ∃ pos, evalArgs T a = .ok (pos, p.target.2)) ∧
    ∃ c, denoteItems o (p.ptype.1 = some "tdm") incs sc.items Tables.empty = .ok c ∧
      p.ops = c.ops ∧ p.modes = c.modes ∧ p.vars = c.tables.vars := by
  cases fuel with
  | zero => simp [runScript] at h
  | succ n =>
    unfold runScript at h
    simp only [bind, Except.bind] at h
    cases ht : liftE T (evalOptions T sc.header.target) with
    | error e => simp [ht] at h
    | ok tgt =>
      simp only [ht] at h
      cases hp : liftE { T with params := T.params ++ (optPars sc.header.target).map .sym }
          (evalOptions { T with params := T.params ++ (optPars sc.header.target).map .sym } sc.header.ptype) with
      | error e => simp [hp] at h
      | ok pty =>
        simp only [hp] at h
        split at h
        · cases h
        · rename_i ri hri
          obtain ⟨Ti, incs'⟩ := ri
          simp only at h
          have hitems := C02_items_refine_denotation o (pty.1 = some "tdm") incs' sc.items
            (⟨Tables.empty, [], []⟩ : LState K)
          simp only at hitems
          cases e1 : sc.items.foldlM (execItem o (decide (pty.1 = some "tdm")) incs') (⟨Tables.empty, [], []⟩ : LState K) with
          | error e => simp [e1] at h
          | ok st =>
            simp only [e1, Except.ok.injEq, Prod.mk.injEq] at h
            obtain ⟨hp', _, hincs⟩ := h
            subst hp' hincs
            have htn : tgt.1 = sc.header.target.map (·.1) := evalOptions_name _ _ _ (liftE_ok _ _ _ ht)
            have hpn : pty.1 = sc.header.ptype.map (·.1) := evalOptions_name _ _ _ (liftE_ok _ _ _ hp)
            refine ⟨rfl, rfl, htn, hpn, ?_, ?_⟩
            · intro nm a hh
              have := liftE_ok _ _ _ ht
              rw [hh] at this
              exact evalOptions_kw T nm a tgt this
            · have e1' : sc.items.foldlM (execItem o (pty.1 = some "tdm") incs') (⟨Tables.empty, [], []⟩ : LState K) = .ok st := by
                simpa using e1
              rw [e1'] at hitems
              cases hd : denoteItems o (pty.1 = some "tdm") incs' sc.items Tables.empty with
              | error e => simp [hd, forget] at hitems
              | ok c =>
                simp only [hd, forget, Except.ok.injEq] at hitems
                subst hitems
                refine ⟨c, ?_, by simp [LState.add], by simp [LState.add], rfl⟩
                simpa using hd

/-! ### non-vacuity -/

def exScript : List Item :=
  [.var .int ⟨.plain, .NAME, "n", ⟨0, 0⟩⟩ (.expr (.num .int "2")),
   .stmt ⟨"Sgate", false, some ⟨[.expr (.num .float "0.5")], [("phi", .one (.expr (.var "n" ⟨0, 0⟩)))]⟩, none,
          [.num .int "0", .var "n" ⟨0, 0⟩], none⟩,
   .loop .int "m" (.range "0" "2" none) [⟨"Vac", false, none, none, [.var "m" ⟨0, 0⟩], none⟩]]

example : (denoteItems SetOrder.id false ([] : Includes ZS) exScript Tables.empty).map
      (fun c => (c.ops.map (·.name), c.ops.map (·.modes), c.modes)) =
    .ok (["Sgate", "Vac", "Vac"], [[0, 2], [0], [1]], [0, 2, 0, 1]) := by decide

end Blackbird
