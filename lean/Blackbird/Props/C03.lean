/-
  C03 — Expressions evaluate to their arithmetic value under the grammar's precedence.

  Three parts. (1) The evaluator's shapes: subtraction is `sum [a, -b]`, division is
  `prod [a, b**-1]` with integer divisors cast to float first, powers and products promote
  int < real < complex. The theorems below show that in exact arithmetic (any field `K` whose
  scalar primitives are the field operations) these shapes compute a - b, a / b, a * b, a ^ n,
  that + - * ** keep integers integers, and that division is true division also for integers.
  (2) Tree shape (precedence, associativity): `Props/C03Parse.lean`. (3) The tables (15
  functions, literals) are finite and compared differentially on every run.
-/
import Blackbird.Eval
import Blackbird.Lemmas.FieldScalar

namespace Blackbird

variable {K : Type} [Field K] [Scalar K] [LawfulScalar K]

open LawfulScalar

/-! ### the evaluator's shapes -/

/-- `a - b` is evaluated as `a + (-b)` -/
theorem evalExpr_sub_shape (T : Tables K) (a b : Expr) :
    evalExpr T (.sub a b) = (do
      let x ← evalExpr T a
      let y ← evalExpr T b
      let ny ← negVal y
      liftBin (fun p q => .ok (p.add q)) .add x ny) := rfl

/-- `a / b` is evaluated as `a * b**-1` -/
theorem evalExpr_div_shape (T : Tables K) (a b : Expr) :
    evalExpr T (.div a b) = (do
      let x ← evalExpr T a
      let y ← evalExpr T b
      let ry ← recipVal y
      liftBin (fun p q => .ok (p.mul q)) .mul x ry) := rfl

/-- brackets and unary plus do not change the value; unary minus negates -/
theorem evalExpr_brackets (T : Tables K) (e : Expr) :
    evalExpr T (.brk e) = evalExpr T e ∧ evalExpr T (.pos e) = evalExpr T e := ⟨rfl, rfl⟩

/-! ### meaning in exact arithmetic (real-valued numbers: int or real) -/

theorem C03_add_meaning (a b : Num K) (x y : K) (ha : a.toK = some x) (hb : b.toK = some y) :
    (a.add b).toK = some (x + y) := by
  cases a with
  | cplx _ _ => simp [Num.toK] at ha
  | int i =>
    cases b with
    | cplx _ _ => simp [Num.toK] at hb
    | int j => simp only [Num.toK, Option.some.injEq] at ha hb; subst ha hb; simp [Num.add, Num.toK]
    | real v => simp only [Num.toK, Option.some.injEq] at ha hb; subst ha hb; simp [Num.add, Num.toK, add_eq, ofInt_eq]
  | real u =>
    cases b with
    | cplx _ _ => simp [Num.toK] at hb
    | int j => simp only [Num.toK, Option.some.injEq] at ha hb; subst ha hb; simp [Num.add, Num.toK, add_eq, ofInt_eq]
    | real v => simp only [Num.toK, Option.some.injEq] at ha hb; subst ha hb; simp [Num.add, Num.toK, add_eq, ofInt_eq]

/-- subtraction, as the code computes it -/
theorem C03_sub_meaning (a b : Num K) (x y : K) (ha : a.toK = some x) (hb : b.toK = some y) :
    (a.add b.neg).toK = some (x - y) := by
  have hn : b.neg.toK = some (-y) := by
    cases b with
    | cplx _ _ => simp [Num.toK] at hb
    | int j => simp only [Num.toK, Option.some.injEq] at hb; subst hb; simp [Num.neg, Num.toK]
    | real v => simp only [Num.toK, Option.some.injEq] at hb; subst hb; simp [Num.neg, Num.toK, neg_eq]
  rw [C03_add_meaning a b.neg x (-y) ha hn, sub_eq_add_neg]

theorem C03_mul_meaning (a b : Num K) (x y : K) (ha : a.toK = some x) (hb : b.toK = some y) :
    (a.mul b).toK = some (x * y) := by
  cases a with
  | cplx _ _ => simp [Num.toK] at ha
  | int i =>
    cases b with
    | cplx _ _ => simp [Num.toK] at hb
    | int j => simp only [Num.toK, Option.some.injEq] at ha hb; subst ha hb; simp [Num.mul, Num.toK]
    | real v => simp only [Num.toK, Option.some.injEq] at ha hb; subst ha hb; simp [Num.mul, Num.toK, mul_eq, ofInt_eq]
  | real u =>
    cases b with
    | cplx _ _ => simp [Num.toK] at hb
    | int j => simp only [Num.toK, Option.some.injEq] at ha hb; subst ha hb; simp [Num.mul, Num.toK, mul_eq, ofInt_eq]
    | real v => simp only [Num.toK, Option.some.injEq] at ha hb; subst ha hb; simp [Num.mul, Num.toK, mul_eq, ofInt_eq]

/-- true division, as the code computes it (`a * b**-1`), also for integer operands: the result
is always a real, never a truncated integer -/
theorem C03_div_meaning (a b : Num K) (x y : K) (ha : a.toK = some x) (hb : b.toK = some y) :
    (a.mul b.recip).toK = some (x / y) ∧ ∃ r, a.mul b.recip = .real r := by
  have hr : b.recip.toK = some y⁻¹ ∧ ∃ r, b.recip = .real r := by
    cases b with
    | cplx _ _ => simp [Num.toK] at hb
    | int j => simp only [Num.toK, Option.some.injEq] at hb; subst hb
               exact ⟨by simp [Num.recip, Num.toK, inv_eq, ofInt_eq], _, rfl⟩
    | real v => simp only [Num.toK, Option.some.injEq] at hb; subst hb
                exact ⟨by simp [Num.recip, Num.toK, inv_eq], _, rfl⟩
  obtain ⟨r, hr2⟩ := hr.2
  constructor
  · rw [C03_mul_meaning a b.recip x y⁻¹ ha hr.1, div_eq_mul_inv]
  · rw [hr2]
    cases a with
    | cplx _ _ => simp [Num.toK] at ha
    | int i => exact ⟨_, rfl⟩
    | real u => exact ⟨_, rfl⟩

/-- integer powers: `x ** n` for a non-negative integer exponent is `x ^ n`; for a real base also
for negative exponents -/
theorem C03_pow_meaning (a : Num K) (x : K) (ha : a.toK = some x) (n : Int) (hn : 0 ≤ n ∨ ∃ r, a = .real r) :
    ∃ v, Num.pow a (.int n) = .ok v ∧ v.toK = some (x ^ n) := by
  cases a with
  | int i =>
    simp only [Num.toK, Option.some.injEq] at ha
    subst ha
    rcases hn with hn | ⟨r, hr⟩
    · refine ⟨.int (i ^ n.toNat), by simp [Num.pow, Int.not_lt.mpr hn], ?_⟩
      simp only [Num.toK, Option.some.injEq]
      have : n = (n.toNat : Int) := (Int.toNat_of_nonneg hn).symm
      conv_rhs => rw [this, zpow_natCast]
      simp
    · cases hr
  | real r =>
    simp only [Num.toK, Option.some.injEq] at ha
    subst ha
    exact ⟨.real (Scalar.powInt r n), rfl, by simp [Num.toK, powInt_eq]⟩
  | cplx a b => simp [Num.toK] at ha

/-- `+`, `-`, `*` and `**` (non-negative exponent) on integers stay integers -/
theorem C03_int_closed (i j : Int) :
    (Num.int i : Num K).add (.int j) = .int (i + j) ∧
    (Num.int i : Num K).add (Num.int j).neg = .int (i - j) ∧
    (Num.int i : Num K).mul (.int j) = .int (i * j) ∧
    (0 ≤ j → Num.pow (Num.int i : Num K) (.int j) = .ok (.int (i ^ j.toNat))) := by
  refine ⟨rfl, ?_, rfl, ?_⟩
  · simp [Num.add, Num.neg, Int.sub_eq_add_neg]
  · intro hj
    simp [Num.pow, Int.not_lt.mpr hj]

/-- an integer to a negative integer power is refused (open finding C03-int-negative-power) -/
theorem C03_int_negative_power_refused (i j : Int) (hj : j < 0) :
    Num.pow (Num.int i : Num K) (.int j) = .error .value := by
  simp [Num.pow, hj]

/-- complex multiplication and addition follow the textbook formulas -/
theorem C03_complex_meaning (a b c d : K) :
    (Num.cplx a b).mul (.cplx c d) = .cplx (a * c - b * d) (a * d + b * c) ∧
    (Num.cplx a b).add (.cplx c d) = .cplx (a + c) (b + d) := by
  constructor
  · simp [Num.mul, Num.cmul, Num.toCplx, add_eq, mul_eq, neg_eq, sub_eq_add_neg]
  · simp [Num.add, Num.toCplx, add_eq]

/-- literals: `INT` tokens denote their decimal value, also with leading zeros -/
theorem C03_int_literal : digitsToNat "007" = 7 ∧ digitsToNat "1200" = 1200 ∧ digitsToNat "0" = 0 := by decide

/-- the text of a COMPLEX token is split at the sign between real and imaginary part, not at an
exponent sign -/
theorem C03_complex_literal_split :
    splitComplex "3+2j" = ("3", "+2") ∧ splitComplex "-1.5e-3-2.5E+2J" = ("-1.5e-3", "-2.5E+2") ∧
    splitComplex "2j" = ("", "2") ∧ splitComplex "-2j" = ("", "-2") := by decide

/-! ### non-vacuity over the rationals: 7 / (1 + 1) = 7/2, 2 - 3 * 4 = -10 -/

example : ((Num.int 7 : Num ℚ).mul ((Num.int 1 : Num ℚ).add (.int 1)).recip).toK = some (7 / 2) := by
  have := (C03_div_meaning (K := ℚ) (.int 7) ((Num.int 1 : Num ℚ).add (.int 1)) 7 2 (by simp [Num.toK])
    (by simp [Num.add, Num.toK])).1
  simpa using this

end Blackbird
