/-
  C03 (tree shape) — the model parser reads every expression with the grammar's binding order.

  `Expr.toks e` writes a tree with exactly the brackets it contains; `Expr.WF e` says the tree
  needs no further brackets under the binding order: brackets, then unary sign, then
  right-associative `**`, then `* /`, then `+ -`, the last two left-associative. The theorem says the
  parser returns exactly `e` for every such tree, of any size and depth.
-/
import Blackbird.Lemmas.ParseExpr

namespace Blackbird

theorem size_le_toks (e : Expr) : e.size ≤ e.toks.length := by
  induction e <;> simp [Expr.size, Expr.toks] <;> omega

/-- **Parser ∘ printer = identity on expressions.** -/
theorem C03_parse_print (e : Expr) (hwf : e.WF = true) (rest : List Tok)
    (h1 : hdKind rest ≠ .LSQBRAC) (h2 : hdKind rest ≠ .PWR) (h3 : hdKind rest ≠ .TIMES)
    (h4 : hdKind rest ≠ .DIVIDE) (h5 : hdKind rest ≠ .PLUS) (h6 : hdKind rest ≠ .MINUS) :
    pExpr (e.toks ++ rest) = some (e, rest) := by
  unfold pExpr exprFuel
  have hsz := size_le_toks e
  have hsp := spineAdd_le_size e
  have hlen : (e.toks ++ rest).length = e.toks.length + rest.length := List.length_append
  have h := (parse_all e hwf).add (8 * (e.toks ++ rest).length + 8) rest (by rw [hlen]; omega) h1 h2 h3 h4
  obtain ⟨j, hj⟩ : ∃ j, 8 * (e.toks ++ rest).length + 8 - 1 - spineAdd e = j + 1 :=
    ⟨8 * (e.toks ++ rest).length + 8 - 1 - spineAdd e - 1, by rw [hlen]; omega⟩
  rw [h, hj, pAddLoop_exit j e rest h5 h6]

/-- in particular at the end of the input or before a closing bracket, a comma or a line end -/
theorem C03_parse_print_eof (e : Expr) (hwf : e.WF = true) : pExpr e.toks = some (e, []) := by
  have := C03_parse_print e hwf [] (by simp [hdKind]) (by simp [hdKind]) (by simp [hdKind]) (by simp [hdKind])
    (by simp [hdKind]) (by simp [hdKind])
  simpa using this

/-- no two different well-bracketed trees are written the same way: the reading is unambiguous -/
theorem C03_printing_injective (e₁ e₂ : Expr) (h₁ : e₁.WF = true) (h₂ : e₂.WF = true)
    (h : e₁.toks = e₂.toks) : e₁ = e₂ := by
  have a := C03_parse_print_eof e₁ h₁
  have b := C03_parse_print_eof e₂ h₂
  rw [h, b] at a
  cases a
  rfl

/-! ### the binding order, spelled out on the classic probes -/

def lit (n : String) : Expr := .num .int n

/-- unary sign binds tighter than `**`: `-2**2` is `(-2)**2` -/
theorem C03_sign_binds_tighter_than_power :
    pExpr [mkTok .MINUS "-", mkTok .INT "2", mkTok .PWR "**", mkTok .INT "2"]
      = some (.pow (.neg (lit "2")) (lit "2"), []) := C03_parse_print_eof (.pow (.neg (lit "2")) (lit "2")) rfl

/-- `**` is right-associative: `2**3**2` is `2**(3**2)` -/
theorem C03_power_right_assoc :
    pExpr [mkTok .INT "2", mkTok .PWR "**", mkTok .INT "3", mkTok .PWR "**", mkTok .INT "2"]
      = some (.pow (lit "2") (.pow (lit "3") (lit "2")), []) :=
  C03_parse_print_eof (.pow (lit "2") (.pow (lit "3") (lit "2"))) rfl

/-- `-` and `/` are left-associative: `10-4-3` is `(10-4)-3`, `16/4/2` is `(16/4)/2` -/
theorem C03_minus_divide_left_assoc :
    pExpr [mkTok .INT "10", mkTok .MINUS "-", mkTok .INT "4", mkTok .MINUS "-", mkTok .INT "3"]
      = some (.sub (.sub (lit "10") (lit "4")) (lit "3"), []) ∧
    pExpr [mkTok .INT "16", mkTok .DIVIDE "/", mkTok .INT "4", mkTok .DIVIDE "/", mkTok .INT "2"]
      = some (.div (.div (lit "16") (lit "4")) (lit "2"), []) :=
  ⟨C03_parse_print_eof (.sub (.sub (lit "10") (lit "4")) (lit "3")) rfl,
   C03_parse_print_eof (.div (.div (lit "16") (lit "4")) (lit "2")) rfl⟩

/-- `*` binds tighter than `+`, `**` tighter than `*`: `2+3*4**2` is `2+(3*(4**2))` -/
theorem C03_levels :
    pExpr [mkTok .INT "2", mkTok .PLUS "+", mkTok .INT "3", mkTok .TIMES "*", mkTok .INT "4", mkTok .PWR "**", mkTok .INT "2"]
      = some (.add (lit "2") (.mul (lit "3") (.pow (lit "4") (lit "2"))), []) :=
  C03_parse_print_eof (.add (lit "2") (.mul (lit "3") (.pow (lit "4") (lit "2")))) rfl

/-- the exponent may carry a sign: `2**-3**2` is `2**((-3)**2)` -/
theorem C03_signed_exponent :
    pExpr [mkTok .INT "2", mkTok .PWR "**", mkTok .MINUS "-", mkTok .INT "3", mkTok .PWR "**", mkTok .INT "2"]
      = some (.pow (lit "2") (.pow (.neg (lit "3")) (lit "2")), []) :=
  C03_parse_print_eof (.pow (lit "2") (.pow (.neg (lit "3")) (lit "2"))) rfl

/-- non-vacuity: a deeper tree with every construct -/
example : (Expr.sub (.mul (.brk (.add (.var "x" ⟨1, 2⟩) (.par "p"))) (.fn .sin (.idx "A" ⟨1, 9⟩ (lit "0"))))
    (.neg (.reg "q0"))).WF = true := rfl

end Blackbird
