/-
  C04 — Instantiating a template equals substituting values into its text.

  In the model a symbolic value is the expression tree as written (`SExpr`), so "substituting
  values into the text and evaluating" is `evalSym` (the value of the written tree with its
  parameters bound), and `instantiate` is the model of `BlackbirdProgram.__call__`.

  Partial: the agreement of Python-number arithmetic (used by the lambdified functions) with the
  NumPy arithmetic used when the substituted text is loaded is a statement about two floating
  arithmetics; it is covered by the correspondence run (instantiate vs load of the substituted
  text, 1e-9), not by these theorems.
-/
import Blackbird.Lemmas.RRT
import Blackbird.Lemmas.Dict
import Blackbird.Lemmas.ToyScalar
import Blackbird.Props.C05

namespace Blackbird

variable {K : Type} [Scalar K]

/-- values assigned to parameters: all numbers -/
def numericAssignment (σ : List (String × Val K)) (ρ : String → Option (Num K)) : Prop :=
  ∀ p, (ρ p = none → dictGet σ p = none) ∧ (∀ n, ρ p = some n → dictGet σ p = some (.atom (.num n)))

theorem pyPow_error (x y : Num K) (e : Err) (h : Num.pyPow x y = .error e) : e = .value := by
  unfold Num.pyPow at h
  cases x <;> cases y <;> simp only [Num.pow] at h <;>
    first
    | (split at h <;> first | cases h | (cases h; rfl))
    | cases h

omit [Scalar K] in
theorem liftBin_num (opN : Num K → Num K → Except Err (Num K)) (opS : SExpr K → SExpr K → SExpr K)
    (x y : Num K) : liftBin opN opS (.atom (.num x)) (.atom (.num y)) = (opN x y).map fun r => .atom (.num r) := by
  simp only [liftBin, Functor.map]

/-- **Substitution.** Instantiating a symbolic value at a numeric assignment computes the value of
the written expression with every parameter replaced by its value; a parameter without a value is
refused with ValueError. (No registers: register expressions are transforms, not template values.) -/
theorem C04_subst_is_evaluation (σ : List (String × Val K)) (ρ : String → Option (Num K))
    (hσ : numericAssignment σ ρ) (t : SExpr K) (hreg : t.regs = []) :
    substS σ t = match evalSym ρ t with
                 | .ok n => .ok (.atom (.num n))
                 | .error .type => .error .value       -- missing value
                 | .error e => .error e := by
  induction t with
  | num n => rfl
  | par p =>
    simp only [substS, evalSym]
    cases hp : ρ p with
    | none => simp [(hσ p).1 hp]
    | some n => simp [(hσ p).2 n hp]
  | reg r => simp [SExpr.regs] at hreg
  | neg a ih =>
    simp only [SExpr.regs] at hreg
    simp only [substS, evalSym, ih hreg, bind, Except.bind]
    cases evalSym ρ a with
    | error e => cases e <;> rfl
    | ok n => rfl
  | add a b iha ihb =>
    simp only [SExpr.regs, List.append_eq_nil_iff] at hreg
    simp only [substS, evalSym, iha hreg.1, ihb hreg.2, bind, Except.bind]
    cases evalSym ρ a with
    | error e => cases e <;> rfl
    | ok x =>
      cases evalSym ρ b with
      | error e => cases e <;> rfl
      | ok y => rfl
  | mul a b iha ihb =>
    simp only [SExpr.regs, List.append_eq_nil_iff] at hreg
    simp only [substS, evalSym, iha hreg.1, ihb hreg.2, bind, Except.bind]
    cases evalSym ρ a with
    | error e => cases e <;> rfl
    | ok x =>
      cases evalSym ρ b with
      | error e => cases e <;> rfl
      | ok y => rfl
  | pow a b iha ihb =>
    simp only [SExpr.regs, List.append_eq_nil_iff] at hreg
    simp only [substS, evalSym, iha hreg.1, ihb hreg.2, bind, Except.bind]
    cases evalSym ρ a with
    | error e => cases e <;> rfl
    | ok x =>
      cases evalSym ρ b with
      | error e => cases e <;> rfl
      | ok y =>
        simp only [liftBin_num]
        cases h : Num.pyPow x y with
        | error e => rw [pyPow_error x y e h]; rfl
        | ok r => rfl

/-- a missing value is refused with ValueError -/
theorem C04_missing_value_refused (σ : List (String × Val K)) (p : String) (h : dictGet σ p = none) :
    substS σ (.par p) = .error .value := by
  simp [substS, h]

/-- … also when the parameter sits inside a larger expression -/
theorem C04_missing_value_refused_nested (σ : List (String × Val K)) (ρ : String → Option (Num K))
    (hσ : numericAssignment σ ρ) (t : SExpr K) (hreg : t.regs = [])
    (hmiss : evalSym ρ t = .error .type) : substS σ t = .error .value := by
  rw [C04_subst_is_evaluation σ ρ hσ t hreg, hmiss]

/-- a program without free parameters cannot be instantiated (ValueError) -/
theorem C04_not_a_template_refused (p : Program K) (kwargs : List (String × Val K)) (h : p.params = []) :
    instantiate p kwargs = .error .value := by
  simp [instantiate, Program.isTemplate, h]

/-- a program is a template exactly when its set of free parameters is non-empty -/
theorem C04_is_template_iff (p : Program K) : p.isTemplate = true ↔ p.paramSet ≠ [] := by
  unfold Program.isTemplate Program.paramSet
  cases p.params with
  | nil => simp [dedupStr]
  | cons a t => simp [dedupStr]

/-- an instantiated program has no free parameters left and is not a template -/
theorem C04_instantiated_has_no_parameters (p q : Program K) (kwargs : List (String × Val K))
    (h : instantiate p kwargs = .ok q) : q.params = [] ∧ q.isTemplate = false ∧ q.paramSet = [] := by
  unfold instantiate at h
  by_cases ht : p.isTemplate = true
  · simp only [ht, Bool.not_true, Bool.false_eq_true, if_false, bind, Except.bind] at h
    split at h
    · cases h
    · split at h
      · cases h
      · split at h
        · cases h
        · simp only [Except.ok.injEq] at h
          subst h
          exact ⟨rfl, rfl, rfl⟩
  · simp [ht] at h

/-- instantiation touches only arguments and variables: name, version, target, type, the modes of
every operation and the number of operations stay as they are -/
theorem C04_instantiate_keeps_structure (p q : Program K) (kwargs : List (String × Val K))
    (h : instantiate p kwargs = .ok q) :
    q.name = p.name ∧ q.version = p.version ∧ q.target = p.target ∧ q.ptype = p.ptype ∧ q.modes = p.modes := by
  unfold instantiate at h
  by_cases ht : p.isTemplate = true
  · simp only [ht, Bool.not_true, Bool.false_eq_true, if_false, bind, Except.bind] at h
    split at h
    · cases h
    · split at h
      · cases h
      · split at h
        · cases h
        · simp only [Except.ok.injEq] at h
          subst h
          exact ⟨rfl, rfl, rfl, rfl, rfl⟩
  · simp [ht] at h

/-- the free parameters reported for a statement are exactly the `{name}` written in it -/
theorem C04_written_parameters (e : Expr) :
    (Expr.par "p").pars = ["p"] ∧
    (∀ a b, (Expr.add a b).pars = a.pars ++ b.pars) ∧
    (∀ x pos, (Expr.var x pos).pars = []) ∧
    (Expr.brk e).pars = e.pars := ⟨rfl, fun _ _ => rfl, fun _ _ => rfl, rfl⟩

/-- a 2-D array value for an array-valued parameter `k` is expanded per element to `k_i_j`, the
names the loader gave the elements of the whole-array parameter -/
theorem C04_array_value_expansion (k : String) (dt : DType) (r c : Nat) (flat : List (SExpr K))
    (i j : Nat) (hi : i < r) (hj : j < c) (e : SExpr K) (he : flat[i * c + j]? = some e) :
    ∃ entries, expandKwargs [(k, Val.arr dt r c flat)] = .ok entries ∧
      (k ++ "_" ++ toString i ++ "_" ++ toString j, sexprToVal e) ∈ entries := by
  refine ⟨_, by simp [expandKwargs, bind, Except.bind]; rfl, ?_⟩
  simp only [List.append_nil, List.mem_flatMap, List.mem_filterMap, rangeNat, List.mem_range]
  exact ⟨i, hi, j, hj, by simp [he]⟩

/-- other iterables (lists, strings) are refused as parameter values -/
theorem C04_non_array_iterable_refused (k : String) (vs : List (Atom K)) (s : String) :
    expandKwargs [(k, Val.list vs)] = .error .value ∧
    expandKwargs [(k, (Val.atom (.str s) : Val K))] = .error .value := by
  simp [expandKwargs, bind, Except.bind]

/-! ### non-vacuity: `2*{a} + 1` at a = 3 -/

def exT : SExpr ZS := .add (.mul (.num (.int 2)) (.par "a")) (.num (.int 1))

example : substS [("a", .atom (.num (.int 3)))] exT = .ok (.atom (.num (.int 7))) := by decide
example : substS ([] : List (String × Val ZS)) exT = .error .value := by decide
example : exT.regs = [] := rfl

end Blackbird
