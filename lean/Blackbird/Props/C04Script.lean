/-
  C04 at script level — calling a template with values gives the program that loading the
  script with the values substituted gives.

  `substPScript ρ sc` is the script a user would write after replacing every `{p}` by the
  bracketed literal of its value (`exprOfNum`, the literal that reads back as the value:
  `LawfulFmt`). The theorems say that `instantiate (load sc) kwargs = load (substPScript ρ sc)`:
  operations, modes, variables, name, version, target, type, and no parameters left.

  Hypotheses, all named:
  * `RecipLaw K` — SymPy writes a quotient as `x * y**(-1)` and Python evaluates the power; the
    evaluator takes `np.power(y, -1)` after the int→float cast. The two agree exactly when
    `pyPow n (-1) = recip n`; for IEEE doubles that is the statement that both are the correctly
    rounded reciprocal, which the correspondence run checks to 1e-9.
  * `Script.tplOK` — the fragment covered: statements and for-loops (no declarations, no
    includes), no measured-register reference inside a template argument, no parameter in a loop
    header or in the target/type options. Declarations holding parameters are covered at the
    level of values (`C04_subst_is_evaluation`) and by the correspondence run.
  * both loads succeed. The substituted text can be refused where the call is not (an integer to
    a negative integer power: NumPy refuses, Python gives a float — KNOWN_FINDINGS), so the
    theorem is conditional on it.
-/
import Blackbird.Lemmas.Instantiate
import Blackbird.Lemmas.IntScalar

namespace Blackbird

variable {K : Type} [Scalar K] [Fmt K] [LawfulFmt K]

/-- the dictionary `__call__` builds from its keyword arguments -/
def callDict (es : List (String × Val K)) : List (String × Val K) :=
  es.foldl (fun d kv => dictSet d kv.1 kv.2) []

/-- **One expression.** If the template expression evaluates to `v` and the text with the values
substituted evaluates to `w`, then instantiating `v` gives `w`. -/
theorem C04_expression_instantiation (hr : RecipLaw K) (σ : List (String × Val K)) (ρ : String → Option (Num K))
    (hσ : numericAssignment σ ρ) (T : Tables K) (hT : T.Plain) (e : Expr)
    (hp : ∀ p ∈ e.pars, (ρ p).isSome = true) (v w : Val K)
    (hv : evalExpr T e = .ok v) (hw : evalExpr T (substP ρ e) = .ok w) : substVal σ v = .ok w :=
  evalExpr_substP hr σ ρ hσ T hT e hp v w hv hw

/-- **One statement** (positional and keyword arguments, list-valued keywords): the operation of
the substituted statement is the instantiated operation of the template statement. -/
theorem C04_statement_instantiation (hr : RecipLaw K) (σ : List (String × Val K)) (ρ : String → Option (Num K))
    (hσ : numericAssignment σ ρ) (o : SetOrder Int) (T : Tables K) (hT : T.Plain) (s : Stmt)
    (hok : s.tplOK = true) (hp : ∀ p ∈ s.parsL, (ρ p).isSome = true) (r r' : List Int × List (Op K))
    (h1 : stmtEffect o [] T s = .ok r) (h2 : stmtEffect o [] T (substPStmt ρ s) = .ok r') :
    r'.1 = r.1 ∧ r.2.mapM (substOp σ) = .ok r'.2 :=
  stmtEffect_substP hr σ ρ hσ o T T hT ⟨rfl, fun _ => rfl⟩ s
    (fun a ha => by simpa [Stmt.tplOK, ha] using hok) (fun a ha => by simpa [Stmt.parsL, ha] using hp) r r' h1 h2

/-- **Whole scripts.** For a template made of statements and for-loops: the program returned by
calling the loaded template with the values is the program loaded from the substituted script. -/
theorem C04_script_instantiation (hr : RecipLaw K) (o : SetOrder Int) (fs : FS) (fuel : Nat) (cwd : String)
    (T0 : Tables K) (sc : Script) (hok : sc.tplOK = true) (ρ : String → Option (Num K))
    (hp : ∀ it ∈ sc.items, ∀ p ∈ it.parsL, (ρ p).isSome = true)
    (kwargs es : List (String × Val K)) (hk : expandKwargs kwargs = .ok es)
    (hσ : numericAssignment (callDict es) ρ)
    (p q : Program K) (X Y : Tables K × Includes K)
    (h1 : runScript o fs (fuel + 1) cwd T0 sc = .ok (p, X))
    (h2 : runScript o fs (fuel + 1) cwd T0 (substPScript ρ sc) = .ok (q, Y))
    (ht : p.params ≠ []) : instantiate p kwargs = .ok q := by
  simp only [Script.tplOK, Bool.and_eq_true, List.isEmpty_iff, List.all_eq_true] at hok
  obtain ⟨⟨⟨hinc, htg⟩, hpt⟩, hitems⟩ := hok
  simp only [runScript, substPScript, hinc, htg, hpt, List.map_nil, List.append_nil, List.foldlM_nil] at h1 h2
  obtain ⟨tgt, htgt, h1⟩ := (bind_eq_ok _ _ _).1 h1
  obtain ⟨tgt', htgt', h2⟩ := (bind_eq_ok _ _ _).1 h2
  rw [htgt] at htgt'; cases htgt'
  obtain ⟨pty, hpty, h1⟩ := (bind_eq_ok _ _ _).1 h1
  obtain ⟨pty', hpty', h2⟩ := (bind_eq_ok _ _ _).1 h2
  rw [hpty] at hpty'; cases hpty'
  simp only [pure, Except.pure, bind, Except.bind] at h1 h2
  split at h1
  · cases h1
  rename_i st1 hst1
  split at h2
  · cases h2
  rename_i st1' hst1'
  cases h1; cases h2
  have hi := execItems_inv hr (callDict es) ρ hσ o _ sc.items _ _ st1 st1' hitems hp
    ⟨⟨rfl, fun _ => rfl⟩, (fun kv h => by simp [Tables.empty] at h), rfl, rfl, (fun e h => by simp [Tables.empty] at h)⟩
    hst1 hst1'
  have hvars : st1.tables.vars.mapM (fun kv => do .ok (kv.1, ← substVal (callDict es) kv.2)) = .ok st1.tables.vars := by
    rw [mapM_ok_of_forall _ id]
    · simp
    · intro kv hkv
      simp only [substVal_plain _ _ (hi.plain kv hkv), bind, Except.bind, id]
  have ht' : ∀ l : List String, l ≠ [] → l.isEmpty = false := by
    intro l hl; cases l with
    | nil => exact absurd rfl hl
    | cons _ _ => rfl
  have ht'' := ht' _ ht
  unfold instantiate
  have hops := hi.ops
  unfold callDict at hops hvars
  simp only [bind, Except.bind] at hvars
  simp only [Program.isTemplate, ht'', hk, bind, Except.bind, hops, hvars, hi.modes, hi.teq.1,
    Bool.not_false, Bool.not_true, Bool.false_eq_true, if_false]
  congr 2
  symm
  apply List.filterMap_eq_nil_iff.2
  intro e he
  cases e with
  | sym p => exact absurd rfl (hi.nosym _ he p)
  | pname s => rfl

/-! ### non-vacuity: the hypotheses hold for a concrete scalar type and a concrete template -/

/-- the integer toy scalar satisfies the reciprocal law (and `LawfulFmt`, `Lemmas/IntScalar.lean`) -/
theorem recipLaw_IS : RecipLaw IS := by
  intro n
  cases n <;> rfl

/-- `int m = 2`, `Dgate({a}, m*{a}+1) | 0`, then `for int k in 1:3  Rgate({b}*k) | k` -/
def exTemplate : Script :=
  ⟨⟨"t", "1.0", none, none, []⟩,
   [.var .int ⟨.plain, .NAME, "m", ⟨0, 0⟩⟩ (.expr (.num .int "2")),
    .stmt ⟨"Dgate", false, some ⟨[.expr (.par "a"), .expr (.add (.mul (.var "m" ⟨0, 0⟩) (.par "a")) (.num .int "1"))], []⟩,
           none, [.num .int "0"], none⟩,
    .loop .int "k" (.range "1" "3" none)
      [⟨"Rgate", false, some ⟨[.expr (.mul (.par "b") (.var "k" ⟨0, 0⟩))], []⟩, none, [.var "k" ⟨0, 0⟩], none⟩]]⟩

def exTplRho : String → Option (Num IS) := fun p => if p = "a" then some (.int 3) else if p = "b" then some (.int 5) else none

def exTplKwargs : List (String × Val IS) := [("a", .atom (.num (.int 3))), ("b", .atom (.num (.int 5)))]

example : exTemplate.tplOK = true := by decide
example : ∀ it ∈ exTemplate.items, ∀ p ∈ it.parsL, (exTplRho p).isSome = true := by decide
example : expandKwargs exTplKwargs = .ok exTplKwargs := by decide

example : numericAssignment (callDict exTplKwargs) exTplRho := by
  intro p
  unfold exTplRho
  by_cases ha : p = "a"
  · subst ha; decide
  · by_cases hb : p = "b"
    · subst hb; decide
    · have ha' : ¬ "a" = p := fun h => ha h.symm
      have hb' : ¬ "b" = p := fun h => hb h.symm
      simp [ha, hb, ha', hb', callDict, exTplKwargs, dictSet, dictGet]

/-- the two loads and the call of the example, run in the model: every hypothesis of
`C04_script_instantiation` holds and its conclusion is what is computed -/
def exTplWitness : Bool :=
  match runScript SetOrder.id ⟨"", []⟩ 1 "" (Tables.empty : Tables IS) exTemplate,
        runScript SetOrder.id ⟨"", []⟩ 1 "" (Tables.empty : Tables IS) (substPScript exTplRho exTemplate) with
  | .ok (p, _), .ok (q, _) =>
    p.params = ["a", "a", "b", "b"] && p.ops.length = 3 &&
    (match instantiate p exTplKwargs with
     | .ok q' => decide (q' = q)
     | .error _ => false)
  | _, _ => false

example : exTplWitness = true := by decide +kernel

end Blackbird
