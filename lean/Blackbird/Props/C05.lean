/-
  C05 — Variables have their declared type; arrays keep written layout and shape.

  `assemble` is the layout part of `exitArrayvar` (row-length check, reshape by the row count,
  comparison with the declared shape); `castScalar` the cast of a scalar initialiser;
  `arrGet` the linear index `A[k]`; `reinsert` the mechanism that puts parameters back.
-/
import Blackbird.Listener
import Blackbird.ArrayInsert
import Blackbird.Lemmas.ToyScalar
import Blackbird.Lemmas.Dict

namespace Blackbird

variable {K : Type} [Scalar K]

theorem allSameLength_iff {α : Type} (r0 : List α) (rs : List (List α)) :
    allSameLength (r0 :: rs) = true ↔ ∀ r ∈ rs, r.length = r0.length := by
  simp [allSameLength]

/-- flattening rows of equal length `n`: element `c` of row `r` is at index `r * n + c` -/
theorem flatten_get {α : Type} (rows : List (List α)) (n : Nat) (h : ∀ r ∈ rows, r.length = n)
    (r c : Nat) (hr : r < rows.length) (hc : c < n) :
    (rows.flatMap id)[r * n + c]? = (rows[r]'hr)[c]? := by
  induction rows generalizing r with
  | nil => simp at hr
  | cons row rest ih =>
    have hrow : row.length = n := h row (by simp)
    simp only [List.flatMap_cons, id]
    cases r with
    | zero =>
      simp only [Nat.zero_mul, Nat.zero_add, List.getElem_cons_zero]
      rw [List.getElem?_append_left (by omega)]
    | succ r' =>
      have hlt : ¬ (r' + 1) * n + c < row.length := by
        rw [hrow, Nat.add_mul]; omega
      rw [List.getElem?_append_right (by omega)]
      have : (r' + 1) * n + c - row.length = r' * n + c := by
        rw [hrow, Nat.add_mul]; omega
      rw [this]
      simp only [List.getElem_cons_succ]
      exact ih (fun x hx => h x (List.mem_cons_of_mem _ hx)) r' (by simpa using hr)

theorem flatMap_id_length {α : Type} (rows : List (List α)) (n : Nat) (h : ∀ r ∈ rows, r.length = n) :
    (rows.flatMap id).length = rows.length * n := by
  induction rows with
  | nil => simp
  | cons a t ih =>
    simp only [List.flatMap_cons, id, List.length_append, List.length_cons]
    rw [ih (fun x hx => h x (List.mem_cons_of_mem _ hx)), h a (by simp), Nat.add_mul]
    omega

/-- Layout: a successfully assembled array is two-dimensional with as many rows as were written,
each element (r, c) is the c-th entry of the r-th written row, the element type is the one
requested, and a declared shape is exactly the actual shape. -/
theorem C05_array_layout (dt : DType) (shp : Option (List Nat)) (rows : List (List (SExpr K))) (v : Val K)
    (h : assemble dt shp rows = .ok v) :
    ∃ nc flat, v = .arr dt rows.length nc flat ∧ (∀ r ∈ rows, r.length = nc) ∧ 0 < rows.length ∧
      flat.length = rows.length * nc ∧
      (∀ r c (hr : r < rows.length), c < nc → flat[r * nc + c]? = (rows[r]'hr)[c]?) ∧
      (∀ s, shp = some s → s = [rows.length, nc]) := by
  unfold assemble at h
  by_cases hs : allSameLength rows = true
  · simp only [hs, Bool.not_true, Bool.false_eq_true, if_false] at h
    cases rows with
    | nil => simp at h
    | cons r0 rs =>
      have hall : ∀ r ∈ r0 :: rs, r.length = r0.length := by
        intro r hr
        rcases List.mem_cons.mp hr with rfl | hr'
        · rfl
        · exact (allSameLength_iff r0 rs).mp hs r hr'
      have hlen : ((r0 :: rs).flatMap id).length = (r0 :: rs).length * r0.length :=
        flatMap_id_length _ _ hall
      cases shp with
      | none =>
        simp only [Except.ok.injEq] at h
        subst h
        exact ⟨r0.length, _, rfl, hall, by simp, hlen, fun r c hr hc => flatten_get _ _ hall r c hr hc,
               fun s hs => by cases hs⟩
      | some s =>
        simp only at h
        split at h
        · cases h
        · rename_i hne
          simp only [Except.ok.injEq] at h
          subst h
          exact ⟨r0.length, _, rfl, hall, by simp, hlen, fun r c hr hc => flatten_get _ _ hall r c hr hc,
                 fun s' hs' => by cases hs'; exact Classical.not_not.mp hne⟩
  · simp [hs] at h

/-- an array whose rows differ in length is rejected rather than rearranged -/
theorem C05_ragged_rejected (dt : DType) (shp : Option (List Nat)) (rows : List (List (SExpr K)))
    (a b : List (SExpr K)) (ha : a ∈ rows) (hb : b ∈ rows) (hne : a.length ≠ b.length) :
    assemble dt shp rows = .error .ragged := by
  unfold assemble
  have : allSameLength rows = false := by
    cases rows with
    | nil => cases ha
    | cons r0 rs =>
      apply Bool.eq_false_iff.mpr
      intro hs
      have h := (allSameLength_iff r0 rs).mp hs
      have la : a.length = r0.length := by
        rcases List.mem_cons.mp ha with rfl | h'
        · rfl
        · exact h a h'
      have lb : b.length = r0.length := by
        rcases List.mem_cons.mp hb with rfl | h'
        · rfl
        · exact h b h'
      omega
  simp [this]

/-- an array whose shape contradicts its declaration is rejected -/
theorem C05_shape_mismatch_rejected (dt : DType) (s : List Nat) (r0 : List (SExpr K)) (rs : List (List (SExpr K)))
    (hrect : ∀ r ∈ rs, r.length = r0.length) (hne : s ≠ [(r0 :: rs).length, r0.length]) :
    assemble dt (some s) (r0 :: rs) = .error .shape := by
  unfold assemble
  have : allSameLength (r0 :: rs) = true := (allSameLength_iff r0 rs).mpr hrect
  simp only [this, Bool.not_true, Bool.false_eq_true, if_false]
  rw [if_pos hne]

/-- `A[k]` denotes the k-th element in row-major order: element (k / n, k % n) -/
theorem C05_index_row_major (flat : List (SExpr K)) (n k : Nat) (hn : 0 < n) (hk : k < flat.length) :
    arrGet flat (Int.ofNat k) = .ok (flat[k]'hk) ∧ k = (k / n) * n + k % n ∧ k % n < n := by
  refine ⟨?_, ?_, Nat.mod_lt _ hn⟩
  · unfold arrGet
    simp only [Int.ofNat_eq_natCast]
    have h1 : ¬ ((k : Int) < 0) := by omega
    have h2 : ¬ ((k : Int) ≥ (flat.length : Int)) := by omega
    simp only [h1, if_false]
    split
    · rename_i hc
      simp at hc
      omega
    · simp [hk]
  · rw [Nat.mul_comm]; exact (Nat.div_add_mod k n).symm

/-- an out-of-range index is refused -/
theorem C05_index_out_of_range (flat : List (SExpr K)) (k : Nat) (hk : flat.length ≤ k) :
    arrGet flat (Int.ofNat k) = .error .index := by
  unfold arrGet
  simp only [Int.ofNat_eq_natCast]
  have h1 : ¬ ((k : Int) < 0) := by omega
  have h2 : ((k : Int) ≥ (flat.length : Int)) := by omega
  simp only [h1, if_false]
  split
  · rfl
  · rename_i hc
    simp at hc
    omega

/-- the declared type of a scalar: the value stored for a parameter-free initialiser is of the
declared kind -/
def kindMatches (ty : VarType) : Val K → Bool
  | .atom (.num (.int _)) => ty = .int
  | .atom (.num (.real _)) => ty = .float
  | .atom (.num (.cplx _ _)) => ty = .complex
  | .atom (.bool _) => ty = .bool
  | .atom (.str _) => ty = .str
  | _ => false

theorem C05_scalar_has_declared_type (ty : VarType) (v w : Val K) (hsym : ∀ e, v ≠ .atom (.sym e))
    (h : castScalar ty v = .ok w) : kindMatches ty w = true := by
  unfold castScalar at h
  cases v with
  | atom a =>
    cases a with
    | sym e => exact absurd rfl (hsym e)
    | num n =>
      cases ty <;> cases n <;> simp only at h <;>
        first
        | (cases h; rfl)
        | (split at h <;> first | (cases h; rfl) | cases h)
        | cases h
    | bool b => cases ty <;> simp only at h <;> first | (cases h; rfl) | cases h
    | str s => cases ty <;> simp only at h <;> first | (cases h; rfl) | cases h
    | pname s => cases h
  | _ => cases h

/-- a complex value is never stored in an int or float variable -/
theorem C05_complex_not_cast (re im : K) :
    castScalar .int (.atom (.num (.cplx re im))) = (.error .type : Except Err (Val K)) ∧
    castScalar .float (.atom (.num (.cplx re im))) = (.error .type : Except Err (Val K)) := ⟨rfl, rfl⟩

/-! ### re-insertion of template parameters -/

theorem insertAt_append {α : Type} (pre suf : List α) (x : α) :
    insertAt (pre ++ suf) pre.length x = pre ++ x :: suf := by
  unfold insertAt
  simp

theorem reinsert_aux {V P : Type} (t : List (V ⊕ P)) (pre : List (V ⊕ P)) :
    (recorded t pre.length).foldl (fun acc ip => insertAt acc ip.1 (.inr ip.2)) (pre ++ (valuesOf t).map .inl)
      = pre ++ t := by
  induction t generalizing pre with
  | nil => simp [recorded, valuesOf]
  | cons e t ih =>
    cases e with
    | inl v =>
      simp only [recorded, valuesOf, List.map_cons]
      have := ih (pre ++ [.inl v])
      simp only [List.length_append, List.length_singleton, List.append_assoc, List.singleton_append] at this
      exact this
    | inr p =>
      simp only [recorded, valuesOf, List.foldl_cons]
      rw [insertAt_append]
      have := ih (pre ++ [.inr p])
      simp only [List.length_append, List.length_singleton, List.append_assoc, List.singleton_append] at this
      exact this

/-- with the positions as recorded (repaired), re-inserting the parameters into the value list
reproduces the elements exactly as written, for any number of parameters at any positions -/
theorem C05_insert_positions {V P : Type} (elems : List (V ⊕ P)) :
    reinsert (valuesOf elems) (recorded elems 0) = elems := by
  have := reinsert_aux elems []
  simpa [reinsert] using this

/-- the positions recorded before the repair put two parameters in the wrong places -/
theorem C05_legacy_positions_wrong :
    reinsert (valuesOf [Sum.inl 1, Sum.inr "a", Sum.inr "b", Sum.inl 2])
      (recordedLegacy ([Sum.inl 1, Sum.inr "a", Sum.inr "b", Sum.inl 2] : List (Nat ⊕ String)) 0)
      ≠ [Sum.inl 1, Sum.inr "a", Sum.inr "b", Sum.inl 2] := by
  decide

/-! ### non-vacuity -/

example : assemble (K := ZS) .int (some [2, 2]) [[.num (.int 1), .num (.int 2)], [.num (.int 3), .num (.int 4)]]
    = .ok (.arr .int 2 2 [.num (.int 1), .num (.int 2), .num (.int 3), .num (.int 4)]) := by decide
example : assemble (K := ZS) .int none [[.num (.int 1), .num (.int 2), .num (.int 3)], [.num (.int 4)]]
    = .error .ragged := by decide

/-- **A redeclaration replaces.** After a name has been declared twice the tables are exactly what they would be
had only the second declaration been made: whatever is evaluated afterwards - `A[k]`, `A` as an argument, a
mode read from it - sees the last declaration and no trace of the first (the evaluator keeps no other record
of a variable than its table entry). -/
theorem C05_redeclaration_replaces (T : Tables K) (x : String) (v w : Val K) :
    ({ T with vars := dictSet (dictSet T.vars x v) x w } : Tables K) = { T with vars := dictSet T.vars x w } := by
  rw [dictSet_dictSet]

/-- in particular an index expression: `A[k]` after `A` was redeclared is an element of the new array -/
theorem C05_index_after_redeclaration (T : Tables K) (x : String) (v : Val K) (dt : DType) (r c : Nat)
    (flat : List (SExpr K)) (pos : Pos) (i : Expr) :
    evalExpr ({ T with vars := dictSet (dictSet T.vars x v) x (.arr dt r c flat) } : Tables K) (.idx x pos i) =
    evalExpr ({ T with vars := dictSet T.vars x (.arr dt r c flat) } : Tables K) (.idx x pos i) := by
  rw [C05_redeclaration_replaces]

end Blackbird
