/-
  C06 — A for-loop is equivalent to its textual unrolling.

  `execLoopVals` is the replay loop of `exitForloop` (convert the value, bind the variable, run
  every body statement), `execLoop` adds the header evaluation before and the deletion of the
  variable after. `unrollBody x lits body` is the body written once per value with the variable
  replaced by a literal of the converted value.
-/
import Blackbird.Lemmas.Subst
import Blackbird.Lemmas.ToyScalar

namespace Blackbird

variable {K : Type} [Scalar K]

/-! ### ranges -/

/-- `a:b:c` denotes `a, a+c, a+2c, …`: the k-th value is `a + k*c` -/
theorem C06_range_get (a b c k : Nat) (hc : 0 < c) (hk : k < (rangeVals a b c).length) :
    (rangeVals a b c)[k] = a + k * c := by
  unfold rangeVals at hk ⊢
  have : c ≠ 0 := by omega
  simp only [this, if_false] at hk ⊢
  simp

/-- every value is below `b`, and the first value not listed is not -/
theorem C06_range_below (a b c : Nat) (hc : 0 < c) :
    (∀ v ∈ rangeVals a b c, a ≤ v ∧ v < b) ∧ ¬ (a + (rangeVals a b c).length * c < b) := by
  unfold rangeVals
  have hc0 : c ≠ 0 := by omega
  simp only [hc0, if_false, List.length_map, List.length_range, List.mem_map, List.mem_range]
  constructor
  · rintro v ⟨k, hk, rfl⟩
    refine ⟨by omega, ?_⟩
    have h1 : k * c < (b - a + c - 1) / c * c := Nat.mul_lt_mul_of_pos_right hk hc
    have h2 : (b - a + c - 1) / c * c ≤ b - a + c - 1 := Nat.div_mul_le_self _ _
    have : k * c + c ≤ (b - a + c - 1) / c * c := by
      have : (k + 1) * c ≤ (b - a + c - 1) / c * c := Nat.mul_le_mul_right c hk
      rw [Nat.add_mul] at this; omega
    omega
  · intro h
    have h2 : b - a + c - 1 < ((b - a + c - 1) / c + 1) * c := by
      have := Nat.lt_div_mul_add (a := b - a + c - 1) hc
      rw [Nat.add_mul]; omega
    rw [Nat.add_mul] at h2
    omega

/-- an empty range (`a ≥ b`) contributes no value -/
theorem C06_range_empty (a b c : Nat) (hab : b ≤ a) : rangeVals a b c = [] := by
  unfold rangeVals
  by_cases hc : c = 0
  · simp [hc]
  · simp only [hc, if_false]
    have : (b - a + c - 1) / c = 0 := by
      apply Nat.div_eq_of_lt
      omega
    simp [this]

/-- a step that is omitted is 1 -/
theorem C06_range_default_step (T : Tables K) (a b : String) :
    loopVals T (.range a b none) = loopVals T (.range a b (some "1")) := by
  simp [loopVals, digitsToNat]

/-! ### the loop and its unrolling -/

/-- the two executions agree when both succeed with the same state or both fail with the same error -/
def sameOutcome (r₁ r₂ : LRes K (LState K)) (R : LState K → LState K → Prop) : Prop :=
  match r₁, r₂ with
  | .ok a, .ok b => R a b
  | .error e₁, .error e₂ => e₁.1 = e₂.1
  | _, _ => False

/-- the loop's state versus the unrolling's state: identical except that the loop has its
variable bound (to the current or a previous value) -/
def LoopRel (x : String) (s₁ s₂ : LState K) : Prop :=
  s₁.ops = s₂.ops ∧ s₁.modes = s₂.modes ∧ s₁.tables.params = s₂.tables.params ∧
  (s₁.tables.vars = s₂.tables.vars ∨ ∃ v, s₁.tables.vars = dictSet s₂.tables.vars x v) ∧
  dictGet s₂.tables.vars x = none ∧ s₂.tables.params.contains (.pname x) = false

theorem contains_append_sym (ps : List PEntry) (qs : List PEntry) (x : String)
    (h : ps.contains (.pname x) = false) (hq : ∀ q ∈ qs, ∃ p, q = .sym p) :
    (ps ++ qs).contains (.pname x) = false := by
  simp only [List.contains_eq_mem, List.mem_append, decide_eq_false_iff_not, not_or] at h ⊢
  refine ⟨h, ?_⟩
  intro hm
  obtain ⟨p, hp⟩ := hq _ hm
  cases hp

theorem stmtPars_sym (s : Stmt) : ∀ q ∈ stmtPars s, ∃ p, q = PEntry.sym p := by
  intro q hq
  unfold stmtPars at hq
  cases hs : s.args with
  | none => simp [hs] at hq
  | some a =>
    simp only [hs, List.mem_map] at hq
    obtain ⟨p, _, rfl⟩ := hq
    exact ⟨p, rfl⟩

/-- one body statement, with the variable bound to `v` on the left and replaced by `lit` on the right -/
theorem execStmt_bound (o : SetOrder Int) (incs : Includes K) (x : String) (v : Val K) (lit : Expr)
    (hl : lit.pars = []) (hlit : ∀ T : Tables K, evalExpr T lit = .ok v)
    (s : Stmt) (hni : stmtIndexes x s = false) (s₁ s₂ : LState K)
    (hops : s₁.ops = s₂.ops) (hmodes : s₁.modes = s₂.modes) (hpar : s₁.tables.params = s₂.tables.params)
    (hvars : s₁.tables.vars = dictSet s₂.tables.vars x v)
    (hfresh : dictGet s₂.tables.vars x = none) (hpn : s₂.tables.params.contains (.pname x) = false) :
    sameOutcome (execStmt o incs s₁ s) (execStmt o incs s₂ (substStmt x lit s))
      (fun a b => a.ops = b.ops ∧ a.modes = b.modes ∧ a.tables.params = b.tables.params ∧
        a.tables.vars = dictSet b.tables.vars x v ∧ dictGet b.tables.vars x = none ∧
        b.tables.params.contains (.pname x) = false) := by
  have hT : s₁.tables = s₂.tables.bind x v := by
    cases h1 : s₁.tables with
    | mk vars params =>
      rw [h1] at hvars hpar
      simp only at hvars hpar
      simp only [Tables.bind, hvars, hpar]
  unfold execStmt
  rw [hT, stmtEffect_subst o incs s₂.tables x v lit hpn (hlit _) hl s hni, stmtPars_subst x lit hl s]
  cases stmtEffect o incs s₂.tables (substStmt x lit s) with
  | error e => simp [sameOutcome]
  | ok r =>
    obtain ⟨ms, ops⟩ := r
    simp only [sameOutcome, hops, hmodes, Tables.bind, true_and]
    exact ⟨hfresh, contains_append_sym _ _ _ hpn (stmtPars_sym s)⟩

/-- the whole body for one value -/
theorem body_bound (o : SetOrder Int) (incs : Includes K) (x : String) (v : Val K) (lit : Expr)
    (hl : lit.pars = []) (hlit : ∀ T : Tables K, evalExpr T lit = .ok v)
    (body : List Stmt) (hni : ∀ s ∈ body, stmtIndexes x s = false) (s₁ s₂ : LState K)
    (hops : s₁.ops = s₂.ops) (hmodes : s₁.modes = s₂.modes) (hpar : s₁.tables.params = s₂.tables.params)
    (hvars : s₁.tables.vars = dictSet s₂.tables.vars x v)
    (hfresh : dictGet s₂.tables.vars x = none) (hpn : s₂.tables.params.contains (.pname x) = false) :
    sameOutcome (body.foldlM (execStmt o incs) s₁) ((body.map (substStmt x lit)).foldlM (execStmt o incs) s₂)
      (fun a b => a.ops = b.ops ∧ a.modes = b.modes ∧ a.tables.params = b.tables.params ∧
        a.tables.vars = dictSet b.tables.vars x v ∧ dictGet b.tables.vars x = none ∧
        b.tables.params.contains (.pname x) = false) := by
  induction body generalizing s₁ s₂ with
  | nil => simp only [List.foldlM_nil, List.map_nil, sameOutcome, pure, Except.pure]
           exact ⟨hops, hmodes, hpar, hvars, hfresh, hpn⟩
  | cons s rest ih =>
    simp only [List.foldlM_cons, List.map_cons]
    have h1 := execStmt_bound o incs x v lit hl hlit s (hni s (by simp)) s₁ s₂ hops hmodes hpar hvars hfresh hpn
    cases e1 : execStmt o incs s₁ s with
    | error e =>
      cases e2 : execStmt o incs s₂ (substStmt x lit s) with
      | error e' => simp only [e1, e2, sameOutcome] at h1; simp only [bind, Except.bind, sameOutcome, h1]
      | ok b => simp [e1, e2, sameOutcome] at h1
    | ok a =>
      cases e2 : execStmt o incs s₂ (substStmt x lit s) with
      | error e' => simp [e1, e2, sameOutcome] at h1
      | ok b =>
        simp only [e1, e2, sameOutcome] at h1
        simp only [bind, Except.bind]
        exact ih (fun s' hs' => hni s' (List.mem_cons_of_mem _ hs')) a b h1.1 h1.2.1 h1.2.2.1 h1.2.2.2.1
          h1.2.2.2.2.1 h1.2.2.2.2.2

/-- **Loop = unrolling.** For every list of loop values `(raw value, converted value, literal of
the converted value)`, every body that does not use the loop variable as an array name, and every
state in which the loop variable is fresh: replaying the body per value equals executing the
unrolled statements; both fail with the same error or both succeed with states that differ only
in the loop variable being bound on the loop's side. -/
theorem loop_vals_eq_unroll (o : SetOrder Int) (incs : Includes K) (ty : VarType) (x : String)
    (body : List Stmt) (hni : ∀ s ∈ body, stmtIndexes x s = false)
    (triples : List (Val K × Val K × Expr))
    (htr : ∀ t ∈ triples, castLoopVal ty t.1 = .ok t.2.1 ∧ t.2.2.pars = [] ∧
      ∀ T : Tables K, evalExpr T t.2.2 = .ok t.2.1)
    (s₁ s₂ : LState K) (h : LoopRel x s₁ s₂) :
    sameOutcome (execLoopVals o incs ty x body (triples.map (·.1)) s₁)
      ((unrollBody x (triples.map (·.2.2)) body).foldlM (execStmt o incs) s₂) (LoopRel x) := by
  induction triples generalizing s₁ s₂ with
  | nil =>
    simp only [List.map_nil, execLoopVals, unrollBody, List.flatMap_nil, List.foldlM_nil, sameOutcome, pure, Except.pure]
    exact h
  | cons t rest ih =>
    obtain ⟨raw, cv, lit⟩ := t
    obtain ⟨hc, hl, hlit⟩ := htr (raw, cv, lit) (by simp)
    obtain ⟨hops, hmodes, hpar, hvars, hfresh, hpn⟩ := h
    simp only [List.map_cons, execLoopVals, unrollBody, List.flatMap_cons, List.foldlM_append]
    simp only at hc
    rw [hc]
    simp only [liftE, bind, Except.bind]
    -- the loop binds the variable
    have hv' : dictSet s₁.tables.vars x cv = dictSet s₂.tables.vars x cv := by
      rcases hvars with h0 | ⟨v0, h0⟩
      · rw [h0]
      · rw [h0, dictSet_dictSet]
    have hb := body_bound o incs x cv lit hl hlit body hni
      { s₁ with tables := { s₁.tables with vars := dictSet s₁.tables.vars x cv } } s₂
      hops hmodes hpar hv' hfresh hpn
    cases e1 : body.foldlM (execStmt o incs)
        { s₁ with tables := { s₁.tables with vars := dictSet s₁.tables.vars x cv } } with
    | error e =>
      cases e2 : (body.map (substStmt x lit)).foldlM (execStmt o incs) s₂ with
      | error e' => simp only [e1, e2, sameOutcome] at hb; simp only [sameOutcome, hb]
      | ok b => simp [e1, e2, sameOutcome] at hb
    | ok a =>
      cases e2 : (body.map (substStmt x lit)).foldlM (execStmt o incs) s₂ with
      | error e' => simp [e1, e2, sameOutcome] at hb
      | ok b =>
        simp only [e1, e2, sameOutcome] at hb
        exact ih (fun t ht => htr t (List.mem_cons_of_mem _ ht)) a b
          ⟨hb.1, hb.2.1, hb.2.2.1, Or.inr ⟨cv, hb.2.2.2.1⟩, hb.2.2.2.2.1, hb.2.2.2.2.2⟩

/-- … and after the loop has deleted its variable the two states are EQUAL: statements after the
loop are unaffected and the loop variable is not visible. -/
theorem C06_loop_eq_unroll (o : SetOrder Int) (incs : Includes K) (ty : VarType) (x : String)
    (body : List Stmt) (hni : ∀ s ∈ body, stmtIndexes x s = false)
    (triples : List (Val K × Val K × Expr))
    (htr : ∀ t ∈ triples, castLoopVal ty t.1 = .ok t.2.1 ∧ t.2.2.pars = [] ∧
      ∀ T : Tables K, evalExpr T t.2.2 = .ok t.2.1)
    (st : LState K) (hfresh : dictGet st.tables.vars x = none)
    (hpn : st.tables.params.contains (.pname x) = false) :
    sameOutcome
      (do let s ← execLoopVals o incs ty x body (triples.map (·.1)) st
          .ok { s with tables := { s.tables with vars := dictErase s.tables.vars x } })
      ((unrollBody x (triples.map (·.2.2)) body).foldlM (execStmt o incs) st)
      (fun a b => a = b) := by
  have h := loop_vals_eq_unroll o incs ty x body hni triples htr st st
    ⟨rfl, rfl, rfl, Or.inl rfl, hfresh, hpn⟩
  cases e1 : execLoopVals o incs ty x body (triples.map (·.1)) st with
  | error e =>
    cases e2 : (unrollBody x (triples.map (·.2.2)) body).foldlM (execStmt o incs) st with
    | error e' => simp only [e1, e2, sameOutcome] at h; simp only [bind, Except.bind, sameOutcome, h]
    | ok b => simp [e1, e2, sameOutcome] at h
  | ok a =>
    cases e2 : (unrollBody x (triples.map (·.2.2)) body).foldlM (execStmt o incs) st with
    | error e' => simp [e1, e2, sameOutcome] at h
    | ok b =>
      simp only [e1, e2, sameOutcome] at h
      obtain ⟨hops, hmodes, hpar, hvars, hfr, _⟩ := h
      simp only [bind, Except.bind, sameOutcome]
      cases a with
      | mk ta oa ma =>
        cases b with
        | mk tb ob mb =>
          cases ta with
          | mk va pa =>
            cases tb with
            | mk vb pb =>
              simp only at hops hmodes hpar hvars hfr
              subst hops hmodes hpar
              have : dictErase va x = vb := by
                rcases hvars with h0 | ⟨v0, h0⟩
                · rw [h0]; exact dictErase_of_not_mem _ _ hfr
                · rw [h0]; exact dictErase_dictSet_fresh _ _ _ hfr
              simp only [this]

omit [Scalar K] in
/-- the loop variable is not visible after the loop -/
theorem C06_loop_var_not_visible_after (d : List (String × Val K)) (x : String) :
    dictGet (dictErase d x) x = none := by
  induction d with
  | nil => rfl
  | cons kv rest ih =>
    obtain ⟨k, v⟩ := kv
    by_cases hk : k = x
    · simp only [dictErase, List.filter_cons, hk, ne_eq, not_true_eq_false, decide_false, Bool.false_eq_true, if_false]
      exact ih
    · simp only [dictErase, List.filter_cons, ne_eq, hk, not_false_eq_true, decide_true, if_true, dictGet, if_false]
      exact ih

/-- a listed value that is not of the loop type is refused: the loop fails at that value -/
theorem C06_wrong_type_refused (o : SetOrder Int) (incs : Includes K) (ty : VarType) (x : String)
    (body : List Stmt) (v : Val K) (rest : List (Val K)) (st : LState K) (e : Err)
    (hbad : castLoopVal ty v = .error e) :
    execLoopVals o incs ty x body (v :: rest) st = .error (e, st.tables) := by
  simp only [execLoopVals, hbad, liftE, bind, Except.bind]

/-- which values are "not of the loop type": e.g. a string or a non-integral float in an int
loop, a number in a str loop -/
theorem C06_examples_of_wrong_type (s : String) (i : Int) :
    castLoopVal (K := K) .int (.atom (.str s)) = .error .value ∧
    castLoopVal (K := K) .str (.atom (.num (.int i))) = .error .value ∧
    castLoopVal (K := K) .float (.atom (.str s)) = .error .value ∧
    castLoopVal (K := K) .bool (.atom (.str s)) = .error .value := ⟨rfl, rfl, rfl, rfl⟩

/-! ### non-vacuity: `for int m in 2:7:2` / `G(m) | m` unrolled with literals 2, 4, 6 -/

def exBody : List Stmt := [⟨"G", false, some ⟨[.expr (.var "m" ⟨0, 0⟩)], []⟩, none, [.var "m" ⟨0, 0⟩], none⟩]
def exTriples : List (Val ZS × Val ZS × Expr) :=
  [(.atom (.num (.int 2)), .atom (.num (.int 2)), .num .int "2"),
   (.atom (.num (.int 4)), .atom (.num (.int 4)), .num .int "4"),
   (.atom (.num (.int 6)), .atom (.num (.int 6)), .num .int "6")]

example : rangeVals 2 7 2 = [2, 4, 6] := by decide
example : ∀ s ∈ exBody, stmtIndexes "m" s = false := by decide
example : ∀ t ∈ exTriples, castLoopVal .int t.1 = .ok t.2.1 ∧ t.2.2.pars = [] ∧
    ∀ T : Tables ZS, evalExpr T t.2.2 = .ok t.2.1 := by
  intro t ht
  simp only [exTriples, List.mem_cons, List.mem_nil_iff, or_false] at ht
  rcases ht with rfl | rfl | rfl <;> exact ⟨rfl, rfl, fun _ => rfl⟩

/-- **A range lists integers.** Whatever its bounds, a non-empty range is refused by a `str` loop (at its first
value), and by a `bool` loop as soon as it reaches a value other than 0 and 1: the loop type is checked for
ranges exactly as for written lists. -/
theorem C06_range_in_str_loop_refused (o : SetOrder Int) (incs : Includes K) (st : LState K) (x : String)
    (a b : String) (c : Option String) (body : List Stmt) (v : Val K) (vs : List (Val K))
    (h : loopVals st.tables (.range a b c) = .ok (v :: vs)) :
    ∃ T, execLoop o incs st .str x (.range a b c) body = .error (.value, T) := by
  have hv : ∃ n : Nat, v = .atom (.num (.int (Int.ofNat n))) := by
    have key : ∀ l : List Nat, (l.map fun (n : Nat) => (Val.atom (.num (.int (Int.ofNat n))) : Val K)) = v :: vs →
        ∃ n : Nat, v = .atom (.num (.int (Int.ofNat n))) := by
      intro l hl
      cases l with
      | nil => cases hl
      | cons n ns => simp only [List.map_cons, List.cons.injEq] at hl; exact ⟨n, hl.1.symm⟩
    cases c with
    | none =>
      simp only [loopVals, Nat.succ_ne_zero, if_false, Except.ok.injEq] at h
      exact key _ h
    | some c =>
      simp only [loopVals] at h
      by_cases hz : digitsToNat c = 0
      · simp [hz] at h
      · simp only [hz, if_false, Except.ok.injEq] at h
        exact key _ h
  obtain ⟨n, rfl⟩ := hv
  unfold execLoop
  simp only [LoopHeader.pars, List.map_nil, List.append_nil, h, liftE, bind, Except.bind]
  rw [C06_wrong_type_refused o incs .str x body _ vs _ .value rfl]
  exact ⟨_, rfl⟩

theorem C06_bool_loop_value_beyond_one_refused (o : SetOrder Int) (incs : Includes K) (x : String)
    (body : List Stmt) (i : Int) (hi : i ≠ 0 ∧ i ≠ 1) (rest : List (Val K)) (st : LState K) :
    execLoopVals o incs .bool x body (.atom (.num (.int i)) :: rest) st = .error (.value, st.tables) := by
  apply C06_wrong_type_refused
  simp [castLoopVal, hi.1, hi.2]

end Blackbird
