/-
  C07 — Calling an included program equals inlining it with renamed modes.

  `stmtEffect` is the model of `exitStatement`; `incs` the listener's include dictionary
  (program name ↦ file name and parsed program); `includeStep` the model of `exitInclude`.
-/
import Blackbird.Listener
import Blackbird.Legacy
import Blackbird.Lemmas.Sort
import Blackbird.Lemmas.Dict
import Blackbird.Lemmas.ToyScalar

namespace Blackbird

variable {K : Type} [Scalar K]

/-- an operation with its modes renamed through a mode map -/
def renameOp (m : List (Int × Int)) (o : Op K) : Except Err (Op K) := do
  .ok { o with modes := ← o.modes.mapM (lookupMode m) }

/-- the operations of `bb` inlined at a call on `modes`: copies with the included program's modes,
taken in increasing order, renamed to the listed modes -/
def inlineOps (o : SetOrder Int) (bb : Program K) (modes : List Int) : Except Err (List (Op K)) :=
  bb.ops.mapM (renameOp ((sortedModes o bb.modes).zip modes))

/-- **Call = inlining** (program without parameters, called without arguments) -/
theorem C07_call_eq_inline (o : SetOrder Int) (incs : Includes K) (T : Tables K) (s : Stmt)
    (file : String) (bb : Program K) (hinc : dictGet incs s.op = some (file, bb))
    (hargs : s.args = none) (hnt : bb.isTemplate = false)
    (modes : List Int) (hm : s.modes.mapM (evalMode T) = .ok modes)
    (hlen : modes.length = (sortedModes o bb.modes).length) :
    stmtEffect o incs T s = (inlineOps o bb modes).map fun ops => (modes, ops) := by
  unfold stmtEffect inlineOps
  simp only [hm, hargs, bind, Except.bind, pure, Except.pure, hinc, hlen, ne_eq, not_true_eq_false, if_false, hnt,
    Bool.false_eq_true]
  unfold renameOp
  simp only [bind, Except.bind, Except.map]

/-- **Call = inlining** (template called with exactly its parameters as keyword arguments): the
inlined operations are those of the instantiated template -/
theorem C07_template_call_eq_inline (o : SetOrder Int) (incs : Includes K) (T : Tables K) (s : Stmt)
    (file : String) (bb : Program K) (hinc : dictGet incs s.op = some (file, bb))
    (a : Args) (hargs : s.args = some a) (ht : bb.isTemplate = true)
    (modes : List Int) (hm : s.modes.mapM (evalMode T) = .ok modes)
    (hlen : modes.length = (sortedModes o bb.modes).length)
    (pos : List (Val K)) (kw : List (String × Val K)) (hev : evalArgs T a = .ok (pos, kw))
    (hkeys : sameSet bb.paramSet (kw.map (·.1)) = true) :
    stmtEffect o incs T s =
      (do let inst ← instantiate bb (kw.map fun (kv : String × Val K) => (kv.1, wrapRRT (T.params ++ stmtPars s) kv.2))
          inlineOps o { inst with modes := bb.modes } modes).map fun ops => (modes, ops) := by
  unfold stmtEffect inlineOps
  simp only [hm, hargs, hev, bind, Except.bind, pure, Except.pure, hinc, hlen, ne_eq, not_true_eq_false, if_false, ht,
    Bool.not_true, Bool.false_eq_true, List.map_map]
  have hk : (kw.map fun (kv : String × Val K) => (kv.1, wrapRRT (T.params ++ stmtPars s) kv.2)).map (·.1) = kw.map (·.1) := by
    simp [List.map_map, Function.comp_def]
  have hk' : sameSet bb.paramSet (List.map (fun x => x.fst) (List.map (fun kv => (kv.fst, wrapRRT (T.params ++ stmtPars s) kv.snd)) kw)) = true := by
    rw [hk]; exact hkeys
  simp only [List.map_map, Function.comp_def] at hk'
  simp only [Function.comp_def, hk', Bool.not_true, Bool.false_eq_true, if_false]
  unfold renameOp
  simp only [bind, Except.bind, Except.map]
  try (split <;> simp_all)

/-- every call is independent: what a call contributes depends on the included program and on
that call's own modes only, so k calls give k renamed copies; in particular a call does not
change what a later call sees -/
theorem C07_calls_independent (o : SetOrder Int) (incs : Includes K) (T₁ T₂ : Tables K) (s : Stmt)
    (hmodes : s.modes.mapM (evalMode T₁) = s.modes.mapM (evalMode T₂))
    (hargs : s.args = none) :
    stmtEffect o incs T₁ s = stmtEffect o incs T₂ s := by
  unfold stmtEffect
  simp only [hmodes, hargs]

/-- the modes of the included program are taken in increasing order, each once -/
theorem C07_modes_increasing (o : SetOrder Int) (modes : List Int) :
    (sortedModes o modes).Pairwise (· ≤ ·) ∧ (sortedModes o modes).Nodup ∧
    ∀ m, m ∈ sortedModes o modes ↔ m ∈ modes := by
  unfold sortedModes
  have hperm : (sortInts (o.perm (dedupInts modes))).Perm (dedupInts modes) :=
    (sortInts_perm_self _).trans (o.isPerm _)
  exact ⟨sortInts_sorted _, hperm.nodup_iff.mpr (nodup_dedupInts _), fun m => (hperm.mem_iff).trans mem_dedupInts⟩

omit [Scalar K] in
/-- a repeated include line (the same file name) is skipped -/
theorem C07_repeated_include_skipped (fs : FS)
    (rec : String → Tables K → Script → LRes K (Program K × Tables K × Includes K))
    (cwd : String) (T : Tables K) (incs : Includes K) (raw : String)
    (h : incs.any (fun e => e.2.1 = pathJoin cwd (String.ofList ((raw.toList.drop 1).dropLast))) = true) :
    includeStep fs rec cwd (T, incs) raw = .ok (T, incs) := by
  unfold includeStep
  simp only [h, if_true]

/-- include paths are resolved against the directory of the including file (`cwd` of its
listener), never against the process directory: the file that is read does not depend on the
process directory once the joined path is absolute -/
theorem C07_path_resolution (procCwd₁ procCwd₂ : String) (p : String) (habs : p.startsWith "/" = true) :
    pathNormalise procCwd₁ p = pathNormalise procCwd₂ p := by
  unfold pathNormalise
  simp only [habs, if_true]

omit [Scalar K] in
/-- nested includes: the dictionary of an included file's own includes is merged into the
including listener's dictionary, so programs included at any depth can be called -/
theorem C07_nested_includes_merged (fs : FS)
    (rec : String → Tables K → Script → LRes K (Program K × Tables K × Includes K))
    (cwd : String) (T : Tables K) (incs : Includes K) (raw : String) (sc : Script)
    (bb : Program K) (T' : Tables K) (sub : Includes K)
    (hnew : incs.any (fun e => e.2.1 = pathJoin cwd (String.ofList ((raw.toList.drop 1).dropLast))) = false)
    (hread : fs.read (pathJoin cwd (String.ofList ((raw.toList.drop 1).dropLast))) = some (some sc))
    (hrec : rec (pathDirname (pathJoin cwd (String.ofList ((raw.toList.drop 1).dropLast)))) T sc = .ok (bb, T', sub)) :
    includeStep fs rec cwd (T, incs) raw =
      .ok (T', sub.foldl (fun d e => dictSet d e.1 e.2)
        (dictSet incs bb.name (pathJoin cwd (String.ofList ((raw.toList.drop 1).dropLast)), bb))) := by
  unfold includeStep
  simp only [hnew, Bool.false_eq_true, if_false, hread, hrec]

/-! ### the pre-repair call site violates the property -/

/-- `Sgate | 8 ; BSgate | [8, 0]` -/
def subProgram : Program ZS :=
  ⟨"Sub", "1.0", (none, []), (none, []), [⟨"Sgate", none, [8]⟩, ⟨"BSgate", none, [8, 0]⟩], [], [], [8, 0]⟩

/-- before the repair, the first call paired modes in first-use order (8 ↦ 1, 0 ↦ 2 instead of
0 ↦ 1, 8 ↦ 2) and the second call failed on the already renamed operations -/
theorem C07_legacy_call_site_wrong :
    (Legacy.includeCall (fun l => l) subProgram [1, 2]).map (fun (r : List (Op ZS) × Program ZS) => r.1.map (fun (x : Op ZS) => x.modes)) = .ok [[1], [1, 2]] ∧
    (inlineOps SetOrder.id subProgram [1, 2]).map (fun (ops : List (Op ZS)) => ops.map (fun (x : Op ZS) => x.modes)) = .ok [[2], [2, 1]] ∧
    (match Legacy.includeCall (fun l => l) subProgram [1, 2] with
     | .ok (_, bb') => (Legacy.includeCall (fun l => l) bb' [3, 4]).map (fun (r : List (Op ZS) × Program ZS) => r.1.map (fun (x : Op ZS) => x.modes))
     | .error e => .error e) = .error .key := by
  decide

/-- non-vacuity: with the repaired call site both calls give renamed copies -/
example : (inlineOps SetOrder.id subProgram [3, 4]).map (fun (ops : List (Op ZS)) => ops.map (fun (x : Op ZS) => x.modes)) = .ok [[4], [4, 3]] := by
  decide

end Blackbird
