/-
  C07 with C04: calling an included *template* with values equals inlining the included file's
  text with the values substituted. Composition of `C07_template_call_eq_inline` (the call
  contributes the renamed operations of the instantiated template) and
  `C04_script_instantiation` (the instantiated template is the program the substituted text
  loads to).
-/
import Blackbird.Props.C07
import Blackbird.Props.C04Script

namespace Blackbird

variable {K : Type} [Scalar K] [Fmt K] [LawfulFmt K]

/-- **Template call = inlining the substituted file.** `scb` is the included file (a template in
the fragment of `C04_script_instantiation`), `bb` what it loads to, `q` what the file with the
call's values written in loads to: the call contributes the operations of `q`, renamed to the
call's modes. -/
theorem C07_template_call_eq_substituted_inline (hr : RecipLaw K) (o : SetOrder Int) (incs : Includes K)
    (T : Tables K) (s : Stmt) (file : String) (bb q : Program K) (hinc : dictGet incs s.op = some (file, bb))
    (a : Args) (hargs : s.args = some a)
    (modes : List Int) (hm : s.modes.mapM (evalMode T) = .ok modes)
    (hlen : modes.length = (sortedModes o bb.modes).length)
    (pos : List (Val K)) (kw : List (String × Val K)) (hev : evalArgs T a = .ok (pos, kw))
    (hkeys : sameSet bb.paramSet (kw.map (·.1)) = true)
    -- where `bb` and `q` come from
    (fs : FS) (fuel : Nat) (cwd : String) (T0 : Tables K) (scb : Script) (hok : scb.tplOK = true)
    (ρ : String → Option (Num K)) (hp : ∀ it ∈ scb.items, ∀ p ∈ it.parsL, (ρ p).isSome = true)
    (es : List (String × Val K))
    (hk : expandKwargs (kw.map fun (kv : String × Val K) => (kv.1, wrapRRT (T.params ++ stmtPars s) kv.2)) = .ok es)
    (hσ : numericAssignment (callDict es) ρ) (X Y : Tables K × Includes K)
    (h1 : runScript o fs (fuel + 1) cwd T0 scb = .ok (bb, X))
    (h2 : runScript o fs (fuel + 1) cwd T0 (substPScript ρ scb) = .ok (q, Y))
    (ht : bb.params ≠ []) :
    stmtEffect o incs T s = (inlineOps o q modes).map fun ops => (modes, ops) := by
  have htpl : bb.isTemplate = true := by
    unfold Program.isTemplate
    cases hpar : bb.params with
    | nil => exact absurd hpar ht
    | cons _ _ => rfl
  have hinst := C04_script_instantiation hr o fs fuel cwd T0 scb hok ρ hp _ es hk hσ bb q X Y h1 h2 ht
  rw [C07_template_call_eq_inline o incs T s file bb hinc a hargs htpl modes hm hlen pos kw hev hkeys, hinst]
  have hmodes := (C04_instantiate_keeps_structure bb q _ hinst).2.2.2.2
  simp only [bind, Except.bind]
  rw [← hmodes]

end Blackbird
