/-
  C08 — Measured-register arguments become transforms computing the written formula.

  `mkRRT o e` is the model of `RegRefTransform(expr)`: `o` is the order in which the set
  `expr.free_symbols` happens to be iterated (arbitrary), `e` the argument as written.
-/
import Blackbird.Lemmas.RRT
import Blackbird.Lemmas.ToyScalar

namespace Blackbird

variable {K : Type} [Scalar K]

/-- Pairing: the function applied to the measurement values of the listed symbols, in the listed
order, is the value of the written expression — for EVERY iteration order `o`. `ρ` gives the
measurement value of each register. -/
theorem C08_rrt_pairing (o : SetOrder String) (e : SExpr K) (ρ : String → Num K) (hp : e.pars = []) :
    (mkRRT o e).func ((mkRRT o e).syms.map ρ) = evalSym (fun s => some (ρ s)) e := by
  unfold mkRRT
  simp only
  apply evalSym_congr
  intro s hs
  rw [hp, List.append_nil] at hs
  apply dictGet_zip_map
  exact ((o.isPerm _).mem_iff).mpr (mem_dedupStr.mpr hs)

/-- the listed symbols are exactly the registers occurring in the expression, each once -/
theorem C08_rrt_symbols (o : SetOrder String) (e : SExpr K) :
    (mkRRT o e).syms.Nodup ∧ ∀ s, s ∈ (mkRRT o e).syms ↔ s ∈ e.regs := by
  unfold mkRRT
  simp only
  constructor
  · exact ((o.isPerm _).nodup_iff).mpr (nodup_dedupStr _)
  · intro s
    rw [(o.isPerm _).mem_iff, mem_dedupStr]

/-- the register numbers are those of the listed symbols, in the same order (so the pairing of
`regrefs` with `func` is that of `syms`), and distinct when distinct symbols have distinct numbers
(register names written canonically, e.g. not both `q1` and `q01`) -/
theorem C08_rrt_regrefs (o : SetOrder String) (e : SExpr K)
    (hinj : ∀ a b, a ∈ e.regs → b ∈ e.regs → regNum a = regNum b → a = b) :
    (mkRRT o e).regrefs = (mkRRT o e).syms.map regNum ∧ (mkRRT o e).regrefs.Nodup ∧
    ∀ n, n ∈ (mkRRT o e).regrefs ↔ ∃ s, s ∈ e.regs ∧ regNum s = n := by
  have hs := C08_rrt_symbols o e
  refine ⟨rfl, ?_, ?_⟩
  · show ((mkRRT o e).syms.map regNum).Nodup
    refine nodup_map_of_inj_on regNum _ hs.1 ?_
    intro a ha b hb hab
    exact hinj a b ((hs.2 a).mp ha) ((hs.2 b).mp hb) hab
  · intro n
    show n ∈ (mkRRT o e).syms.map regNum ↔ _
    simp only [List.mem_map, hs.2]

/-- an argument is wrapped as a transform exactly when it mentions a register (its parameters
being registered template parameters); everything else stays a plain value -/
theorem C08_wrapped_iff (params : List PEntry) (v : Val K) :
    (∃ e, wrapRRT params v = .rrt e ∧ v ≠ .rrt e) ↔
    ∃ e, v = .atom (.sym e) ∧ ¬ (e.regs.isEmpty = true ∧ e.pars.all (fun p => params.contains (.sym p)) = true) := by
  constructor
  · rintro ⟨e, h, hne⟩
    cases v with
    | atom a =>
      cases a with
      | sym e' =>
        refine ⟨e', rfl, ?_⟩
        intro hc
        simp only [wrapRRT, hc.1, hc.2, Bool.and_self, if_true] at h
        cases h
      | _ => simp [wrapRRT] at h
    | rrt e' =>
      simp only [wrapRRT] at h
      exact absurd h hne
    | _ => simp [wrapRRT] at h
  · rintro ⟨e, rfl, hc⟩
    refine ⟨e, ?_, by intro h; cases h⟩
    simp only [wrapRRT]
    cases hb : (e.regs.isEmpty && e.pars.all (fun p => params.contains (.sym p))) with
    | true => exact absurd (Bool.and_eq_true_iff.mp hb) hc
    | false => simp

theorem C08_plain_values_stay (params : List PEntry) (v : Val K)
    (h : ∀ e, v ≠ .atom (.sym e)) : wrapRRT params v = v := by
  cases v with
  | atom a =>
    cases a with
    | sym e => exact absurd rfl (h e)
    | _ => rfl
  | _ => rfl

/-! ### non-vacuity: `2*q0 + q3` under two different iteration orders -/

def exE : SExpr ZS := .add (.mul (.num (.int 2)) (.reg "q0")) (.reg "q3")
def revOrder : SetOrder String := ⟨List.reverse, fun l => List.reverse_perm l⟩
def exRho (s : String) : Num ZS := if s = "q0" then .int 5 else .int 7

example : (mkRRT SetOrder.id exE).regrefs = [0, 3] ∧ (mkRRT revOrder exE).regrefs = [3, 0] := by decide
example : (mkRRT SetOrder.id exE).func [.int 5, .int 7] = .ok (.int 17) := by decide
example : (mkRRT revOrder exE).func [.int 7, .int 5] = .ok (.int 17) := by decide
example : exE.pars = [] := rfl

end Blackbird
