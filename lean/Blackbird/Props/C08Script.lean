/-
  C08 at expression level — the transform delivered for an argument over measured registers
  computes the written formula.

  `substR ρ ex` is the written expression with every register reference replaced by the
  bracketed literal of its measured value. The theorem says: the function of the transform the
  evaluator builds for `ex`, applied to the values of its listed registers in its listed order,
  returns what the evaluator computes for `substR ρ ex`. Hypotheses: `LawfulFmt` (the literal
  reads back as the value), `RecipLaw` (Python's `y**-1` is NumPy's reciprocal), no template
  parameter in the expression (then the argument is a template value, C04), the tables hold plain
  values (variables holding register expressions are not allowed by the grammar's evaluator:
  `float x = q0` is stored but a later use inside a transform is outside this theorem).
-/
import Blackbird.Props.C08
import Blackbird.Lemmas.RegSubst
import Blackbird.Lemmas.IntScalar

namespace Blackbird

variable {K : Type} [Scalar K] [Fmt K] [LawfulFmt K]

/-- **The transform computes the written formula**, whatever order the registers are listed in. -/
theorem C08_transform_computes_written_formula (hr : RecipLaw K) (o : SetOrder String) (T : Tables K) (hT : T.Plain)
    (ex : Expr) (hp : ex.pars = []) (ρ : String → Num K) (e : SExpr K)
    (hv : evalExpr T ex = .ok (.atom (.sym e))) (w : Val K)
    (hw : evalExpr T (substR (fun s => some (ρ s)) ex) = .ok w) :
    ∃ n, w = .atom (.num n) ∧ (mkRRT o e).func ((mkRRT o e).syms.map ρ) = .ok n := by
  have hpars : e.pars = [] := by
    have := evalExpr_parsIn T hT ex _ hv e rfl
    rw [hp] at this
    cases hx : e.pars with
    | nil => rfl
    | cons p t => exact absurd (this p (by simp [hx])) (by simp)
  have h := evalExpr_substR hr (fun s => some (ρ s)) T hT ex hp (fun r _ => rfl) _ w hv hw
  obtain ⟨n, hn, rfl⟩ := valAt_sym _ e w h
  exact ⟨n, rfl, by rw [C08_rrt_pairing o e ρ hpars]; exact hn⟩

/-- and the argument is delivered as a transform exactly when a register is written in it -/
theorem C08_register_argument_is_transform (T : Tables K) (hT : T.Plain) (ex : Expr) (hp : ex.pars = [])
    (params : List PEntry) (e : SExpr K) (hv : evalExpr T ex = .ok (.atom (.sym e))) :
    wrapRRT params (.atom (.sym e)) = .rrt e := by
  have hgood := good_sym e (evalExpr_good T hT ex _ hv)
  have hpars : e.pars = [] := by
    have := evalExpr_parsIn T hT ex _ hv e rfl
    rw [hp] at this
    cases hx : e.pars with
    | nil => rfl
    | cons p t => exact absurd (this p (by simp [hx])) (by simp)
  have hregs : e.regs ≠ [] := by
    rcases hgood with h | h
    · exact h
    · exact absurd hpars h
  simp only [wrapRRT]
  rw [if_neg]
  simp only [Bool.and_eq_true, List.isEmpty_iff, not_and]
  intro h
  exact absurd h hregs

/-! ### non-vacuity: `(q0 - 1) / q3 + 2*q0` at q0 = 7, q3 = 2 over the integer toy scalar -/

def exRegExpr : Expr :=
  .add (.div (.brk (.sub (.reg "q0") (.num .int "1"))) (.reg "q3")) (.mul (.num .int "2") (.reg "q0"))

def exRegVals : String → Num IS := fun s => if s = "q0" then .int 7 else .int 2

/-- both sides of the theorem computed for the example; the registers listed as (q3, q0) -/
def exRegWitness : Bool :=
  match evalExpr (Tables.empty : Tables IS) exRegExpr,
        evalExpr (Tables.empty : Tables IS) (substR (fun s => some (exRegVals s)) exRegExpr) with
  | .ok (.atom (.sym e)), .ok (.atom (.num n)) =>
    let t := mkRRT ⟨List.reverse, fun l => List.reverse_perm l⟩ e
    decide (t.syms = ["q3", "q0"]) &&
    (match t.func (t.syms.map exRegVals) with
     | .ok m => decide (m = n)
     | .error _ => false)
  | _, _ => false

example : exRegWitness = true := by decide +kernel
example : exRegExpr.pars = [] := rfl

end Blackbird
