/-
  C09 — programs assembled through the API serialise to valid, equivalent scripts.

  `scriptOf p` (Blackbird/Unparse.lean) is the script the serialiser writes for `p`, as a syntax
  tree; its printing `Script.toks` is the token sequence of the text (tied to the real `dumps` on
  every run by the UNPARSE correspondence). The theorems say: for every program of the covered
  class — any number of operations; integers, reals, complex numbers, booleans, quote-free strings,
  non-empty lists of these, two-dimensional int/float/complex arrays of any shape r x c >= 1x1,
  parameter expressions and register transforms, in positional and keyword position; the same
  scalar kinds and lists as target/type options — and EVERY layout of line ends, the parser accepts
  the text and the listener rebuilds exactly the program.

  Number formatting is a contract boundary (`LawfulFmt`: `float(repr(x)) == x` and the shape of the
  printed complex literal); everything else is proved from the model's definitions.
-/
import Blackbird.Lemmas.UnparseProgram
import Blackbird.Lemmas.ToyScalar
import Blackbird.Lemmas.IntScalar

namespace Blackbird

variable {K : Type} [Scalar K] [Fmt K] [LawfulFmt K]

/-- **Numbers come back exactly**: the written form of an integer, real or complex number — a bare
literal, or a minus sign in front of one — evaluates to that number. -/
theorem C09_number_exact (T : Tables K) (n : Num K) : evalExpr T (exprOfNum n) = .ok (.atom (.num n)) :=
  eval_exprOfNum T n

/-- decimal text of a natural number reads back as that number (INT tokens, shapes, modes) -/
theorem C09_int_text_exact (n : Nat) : digitsToNat (toString n) = n := digitsToNat_toString n

/-- **Array declarations reproduce the shape and every element exactly**: executing the
declaration written for an r x c array (any r, c >= 1) stores an array of the same element type
with r rows and c columns whose flat content is the original, element for element. -/
theorem C09_array_declaration_exact (o : SetOrder Int) (T : Tables K) (d : ArrDecl K) (hd : d.OK)
    (ops : List (Op K)) (modes : List Int) :
    execItem o false ([] : Includes K) ⟨T, ops, modes⟩ d.item =
      .ok ⟨{ T with vars := dictSet T.vars d.name (.arr d.dt d.r d.c d.flat) }, ops, modes⟩ :=
  arrEffect_decl o T d hd ops modes

/-- **Operations**: the line written for an operation, evaluated where the hoisted arrays are
declared, yields that one operation — name, positional and keyword arguments in order, modes. -/
theorem C09_operation_exact (o : SetOrder Int) (T : Tables K) (st st' : UnState K) (op : Op K) (s : Stmt)
    (hop : op.OK) (h : stmtOfOp st op = .ok (s, st')) (hT : ∀ d ∈ st'.decls, Holds T d) (hp : NoPname T) :
    stmtEffect o ([] : Includes K) T s = .ok (op.modes, [op]) :=
  (stmtEffect_stmtOfOp o T st st' op s hop h hT hp).1

/-- **Target / type options**: the metadata line evaluates to the same name and options. -/
theorem C09_options_exact (T : Tables K) (hp : NoPname T) (m : Option String × List (String × Val K))
    (hm : MetaOK m) (mo : Option (String × Option Args)) (h : metaOf m = .ok mo) : evalOptions T mo = .ok m :=
  (eval_metaOf T hp m hm mo h).1

/-- **C09, whole programs.** For every covered program and every layout of line ends: the parser
accepts the serialised token sequence and returns the script, and loading the script yields the
same name, version, target, type, options and operation sequence. -/
theorem C09_serialised_program_loads_back (o : SetOrder Int) (fs : FS) (cwd : String) (T0 : Tables K)
    (p : Program K) (sc : Script) (hp : p.OK) (hne : ∀ op ∈ p.ops, op.modes ≠ []) (h : scriptOf p = .ok sc)
    (ml : MetaLay) (lay : List (Nat × List Nat)) (final : Nat) :
    parseScript (sc.toks ml lay final) = some sc ∧
    ∃ vars, (loadStep o fs cwd T0 sc).1 =
      .ok ⟨p.name, p.version, p.target, p.ptype, p.ops, vars, p.ops.flatMap Op.pars, p.ops.flatMap (·.modes)⟩ :=
  ⟨parse_scriptOf p sc hp hne h ml lay final, load_scriptOf o fs cwd T0 p sc hp h⟩

omit [Scalar K] [LawfulFmt K] in
theorem argOfVal_total (st : UnState K) (v : Val K) (hv : v.argOK) : ∃ r, argOfVal st v = .ok r := by
  cases v with
  | list vs => simp [Val.argOK] at hv
  | _ => exact ⟨_, rfl⟩

omit [Scalar K] [LawfulFmt K] in
theorem posOfVals_total (vs : List (Val K)) (st : UnState K) (hv : ∀ v ∈ vs, v.argOK) : ∃ r, posOfVals vs st = .ok r := by
  induction vs generalizing st with
  | nil => exact ⟨_, rfl⟩
  | cons v vs ih =>
    obtain ⟨⟨a, st1⟩, h1⟩ := argOfVal_total st v (hv v (by simp))
    obtain ⟨⟨as, st2⟩, h2⟩ := ih st1 (fun x hx => hv x (List.mem_cons_of_mem _ hx))
    exact ⟨_, by simp only [posOfVals, h1, h2, bind, Except.bind]; rfl⟩

omit [Scalar K] [LawfulFmt K] in
theorem kwOfVal_total (st : UnState K) (v : Val K) (hv : v.kwOK) : ∃ r, kwOfVal st v = .ok r := by
  cases v with
  | list vs => exact ⟨_, rfl⟩
  | atom a => exact ⟨_, rfl⟩
  | rrt e => exact ⟨_, rfl⟩
  | arr dt r c flat => exact ⟨_, rfl⟩

omit [Scalar K] [LawfulFmt K] in
theorem kwOfVals_total (kw : List (String × Val K)) (st : UnState K) (hv : ∀ kv ∈ kw, kv.2.kwOK) :
    ∃ r, kwOfVals kw st = .ok r := by
  induction kw generalizing st with
  | nil => exact ⟨_, rfl⟩
  | cons kv kw ih =>
    obtain ⟨k, v⟩ := kv
    obtain ⟨⟨a, st1⟩, h1⟩ := kwOfVal_total st v (hv (k, v) (by simp))
    obtain ⟨⟨as, st2⟩, h2⟩ := ih st1 (fun x hx => hv x (List.mem_cons_of_mem _ hx))
    exact ⟨_, by simp only [kwOfVals, h1, h2, bind, Except.bind]; rfl⟩

omit [Scalar K] [LawfulFmt K] in
theorem stmtsOfOps_total (ops : List (Op K)) (st : UnState K) (hops : ∀ op ∈ ops, op.OK) :
    ∃ r, stmtsOfOps ops st = .ok r := by
  induction ops generalizing st with
  | nil => exact ⟨_, rfl⟩
  | cons op ops ih =>
    have hop := hops op (by simp)
    have h1 : ∃ r, stmtOfOp st op = .ok r := by
      obtain ⟨name, args, modes⟩ := op
      cases args with
      | none => exact ⟨_, rfl⟩
      | some pk =>
        obtain ⟨pos, kw⟩ := pk
        obtain ⟨⟨a, st1⟩, h1⟩ := posOfVals_total pos st (hop.pos _ rfl)
        obtain ⟨⟨k, st2⟩, h2⟩ := kwOfVals_total kw st1 (hop.kw _ rfl)
        exact ⟨_, by simp only [stmtOfOp, h1, h2, bind, Except.bind]; rfl⟩
    obtain ⟨⟨s, st1⟩, h1⟩ := h1
    obtain ⟨⟨ss, st2⟩, h2⟩ := ih st1 (fun x hx => hops x (List.mem_cons_of_mem _ hx))
    exact ⟨_, by simp only [stmtsOfOps, h1, h2, bind, Except.bind]; rfl⟩

omit [Scalar K] [LawfulFmt K] in
theorem metaOf_total (m : Option String × List (String × Val K)) (hm : MetaOK m) : ∃ mo, metaOf m = .ok mo := by
  obtain ⟨nm, opts⟩ := m
  cases nm with
  | none => exact ⟨_, rfl⟩
  | some name =>
    by_cases he : opts.isEmpty = true
    · exact ⟨_, by simp only [metaOf, he, if_true]; rfl⟩
    · have hmap : opts.mapM (fun kv => do .ok (kv.1, ← optOfVal kv.2)) =
          (.ok (opts.map fun kv => (kv.1, kwOfOpt kv.2)) : Except Err _) := by
        apply mapM_ok_of_forall
        intro kv hkv
        simp only [optOfVal_ok kv.2 (hm.vals kv hkv), bind, Except.bind]
      refine ⟨some (name, some ⟨[], opts.map fun kv => (kv.1, kwOfOpt kv.2)⟩), ?_⟩
      simp only [metaOf, he, Bool.false_eq_true, if_false]
      rw [hmap]
      rfl

omit [Scalar K] [LawfulFmt K] in
/-- every covered program has a script: the serialiser does not refuse it -/
theorem C09_serialiser_total (p : Program K) (hp : p.OK) : ∃ sc, scriptOf p = .ok sc := by
  obtain ⟨tgt, ht⟩ := metaOf_total p.target hp.target
  obtain ⟨typ, hy⟩ := metaOf_total p.ptype hp.ptype
  obtain ⟨⟨ss, st⟩, hs⟩ := stmtsOfOps_total p.ops (⟨0, []⟩ : UnState K) hp.ops
  exact ⟨_, by simp only [scriptOf, ht, hy, hs, bind, Except.bind]; rfl⟩

end Blackbird

namespace Blackbird

/-! ### non-vacuity -/

/-- the hypotheses about number formatting are consistent with the model's own literal reader: the
integers printed in decimal satisfy them (`Lemmas/IntScalar.lean`; the complex literal `-12+34j` is
split at the right sign and both parts read back) -/
example : LawfulFmt IS := inferInstance

/-- a non-degenerate scalar for concrete witnesses: thousandths, printed with three decimals -/
instance : Fmt ZS where
  signbit x := x.v < 0
  lt0 x := x.v < 0
  abs x := ⟨x.v.natAbs⟩
  fmtAbs x :=
    let n := x.v.natAbs
    let f := n % 1000
    toString (n / 1000) ++ "." ++ (if f < 10 then "00" else if f < 100 then "0" else "") ++ toString f

def exProgram : Program ZS :=
  { name := "prog", version := "1.0",
    target := (some "gaussian", [("shots", .atom (.num (.int 10))), ("cutoff", .list [.num (.int 3), .bool true])]),
    ptype := (none, []),
    ops := [⟨"Sgate", some ([.atom (.num (.real ⟨-1500⟩)), .atom (.num (.cplx ⟨250⟩ ⟨-2000⟩))],
                             [("phi", .atom (.sym (.mul (.num (.int 2)) (.par "a"))))]), [0]⟩,
            ⟨"Interferometer", some ([.arr .int 2 2 [.num (.int 1), .num (.int (-2)), .num (.int 3), .num (.int 4)]], []), [0, 1]⟩,
            ⟨"MeasureX", none, [1]⟩,
            ⟨"Zgate", some ([.rrt (.mul (.reg "q1") (.num (.real ⟨500⟩)))], [("s", .atom (.str "x"))]), [0]⟩],
    vars := [], params := ["a"], modes := [0, 0, 1, 1, 0] }

/-- the model evaluated on a concrete program: the script is produced, its tokens parse back to
it, and loading it yields the program's name, version, target, type and operations -/
example :
    (match scriptOf exProgram with
     | .ok sc =>
       decide (parseScript (sc.toks ⟨0, 0, 0, 0, [], false⟩ [] 1) = some sc) &&
       (match (loadStep SetOrder.id ⟨"", []⟩ "" Tables.empty sc).1 with
        | .ok q => decide (q.ops = exProgram.ops ∧ q.target = exProgram.target ∧ q.params = ["a"] ∧
                           q.modes = [0, 0, 1, 1, 0])
        | .error _ => false)
     | .error _ => false) = true := by
  decide +kernel

end Blackbird
