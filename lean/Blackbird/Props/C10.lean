/-
  C10 — Ungrammatical scripts always raise BlackbirdSyntaxError at the offending token.

  Proved here: (1) whatever the offending symbol, the message and the chain of parent contexts
  are, the error listener raises BlackbirdSyntaxError carrying the reported line and the 1-based
  column, provided the contexts have the children the grammar guarantees (`CtxInv`); without that
  hypothesis the model exhibits the AttributeError / UnboundLocalError the Python code would
  raise. (2) Every script in printed form, under every layout, passes the model's syntax stage
  (`parseScript_ok`): one direction of "passes iff grammatical".

  Partial: ANTLR's ALL(*) prediction and error strategy are not modelled. That the real parser's
  verdict equals grammar membership, and that the reported token is not earlier than the first token
  at which no sentence can continue, is decided on every run by an Earley recogniser over
  src/blackbird.g4 applied to the shipped lexer's token stream (differential), for all single-token
  edits, truncations and token soups the generator produces.
-/
import Blackbird.ErrorListener
import Blackbird.Lemmas.ParseScript

namespace Blackbird

theorem walkAncestors_ok (line col : Nat) (anc : List CtxNode) (h : anc.all nodeInv = true) :
    walkAncestors line col anc = none ∨ ∃ m, walkAncestors line col anc = some (.syntaxErr line col m) := by
  induction anc with
  | nil => exact Or.inl rfl
  | cons a rest ih =>
    simp only [List.all_cons, Bool.and_eq_true] at h
    unfold walkAncestors
    by_cases hc : a.cls = .arrayvar
    · have hi := h.1
      simp only [nodeInv, hc, Bool.and_eq_true] at hi
      simp [hc, hi.1, hi.2]
    · simp only [hc, if_false]
      exact ih h.2

def isSyntaxAt (l c : Nat) : ErrOutcome → Bool
  | .syntaxErr l' c' _ => l' = l && c' = c
  | _ => false

theorem isSyntaxAt_iff (l c : Nat) (o : ErrOutcome) : isSyntaxAt l c o = true ↔ ∃ m, o = .syntaxErr l c m := by
  cases o with
  | syntaxErr l' c' m =>
    simp only [isSyntaxAt, Bool.and_eq_true, decide_eq_true_eq]
    constructor
    · rintro ⟨rfl, rfl⟩; exact ⟨m, rfl⟩
    · rintro ⟨m', h⟩; cases h; exact ⟨rfl, rfl⟩
  | attributeError => simp [isSyntaxAt]
  | unboundLocal => simp [isSyntaxAt]

/-- **The listener always raises BlackbirdSyntaxError at (line, column + 1).** -/
theorem C10_listener_total (i : ErrInput) (hinv : CtxInv i = true) :
    ∃ m, syntaxError i = .syntaxErr i.line (i.column + 1) m := by
  rw [← isSyntaxAt_iff]
  unfold CtxInv at hinv
  simp only [Bool.and_eq_true] at hinv
  obtain ⟨⟨hctx, hanc⟩, hst⟩ := hinv
  have hw := walkAncestors_ok i.line (i.column + 1) i.ancestors hanc
  unfold syntaxError
  cases h1 : i.symbolInvalid with
  | true => simp [isSyntaxAt]
  | false =>
    rcases hw with hw | ⟨m, hw⟩
    · simp only [hw]
      cases hc : i.ctx.cls with
      | expressionvar =>
        simp only [nodeInv, hc] at hctx
        cases h2 : i.ctx.hasAssign <;> cases h3 : i.symbolIsNewline <;> simp_all [isSyntaxAt]
      | arrayvar =>
        simp only [nodeInv, hc] at hctx
        cases h4 : i.msgExpectingNewline <;> simp_all [isSyntaxAt]
      | statement =>
        cases h5 : i.msgMissingModes <;> cases h6 : i.msgExpectingCloser <;>
          cases h9 : i.ctx.hasOperation <;> cases h10 : i.ctx.hasMeasure <;> simp_all [isSyntaxAt]
      | start => cases h7 : i.msgExpectingName <;> simp_all [isSyntaxAt]
      | metadatablock => cases h8 : i.msgExpectingVersion <;> simp_all [isSyntaxAt]
      | other => simp_all [isSyntaxAt]
    · simp only [hw]
      cases hc : i.ctx.cls with
      | expressionvar =>
        simp only [nodeInv, hc] at hctx
        cases h2 : i.ctx.hasAssign <;> cases h3 : i.symbolIsNewline <;> simp_all [isSyntaxAt]
      | arrayvar =>
        simp only [nodeInv, hc] at hctx
        cases h4 : i.msgExpectingNewline <;> simp_all [isSyntaxAt]
      | statement => simp_all [isSyntaxAt]
      | start => simp_all [isSyntaxAt]
      | metadatablock => simp_all [isSyntaxAt]
      | other => simp_all [isSyntaxAt]

/-- without the invariant the Python code does raise something else: a variable context without
its name child gives AttributeError, a statement context with neither child an UnboundLocalError -/
theorem C10_invariant_needed :
    syntaxError { ctx := { cls := .expressionvar, hasVartype := true }, ancestors := [], symbolInvalid := false,
                  symbolIsNewline := false, msgExpectingNewline := false, msgMissingModes := false,
                  msgExpectingCloser := false, msgExpectingName := false, msgExpectingVersion := false,
                  line := 3, column := 4 } = .attributeError ∧
    syntaxError { ctx := { cls := .statement }, ancestors := [], symbolInvalid := false,
                  symbolIsNewline := true, msgExpectingNewline := false, msgMissingModes := true,
                  msgExpectingCloser := false, msgExpectingName := false, msgExpectingVersion := false,
                  line := 3, column := 4 } = .unboundLocal := by decide

/-- the column in the message is 1-based: the token's 0-based column plus one -/
theorem C10_column_one_based (i : ErrInput) (hinv : CtxInv i = true) (l c : Nat) (m : ErrMsg)
    (h : syntaxError i = .syntaxErr l c m) : l = i.line ∧ c = i.column + 1 := by
  obtain ⟨m', hm⟩ := C10_listener_total i hinv
  rw [hm] at h
  cases h
  exact ⟨rfl, rfl⟩

/-- every printed script passes the model's syntax stage, under every layout -/
theorem C10_printed_scripts_pass (s : Script) (hh : s.header.WFp) (hitems : ∀ it ∈ s.items, it.WFp)
    (ml : MetaLay) (lay : List (Nat × List Nat)) (final : Nat) :
    (parseScript (s.toks ml lay final)).isSome = true := by
  rw [parseScript_ok s hh hitems ml lay final]; rfl

/-! ### non-vacuity: the contexts met in practice -/

example : CtxInv { ctx := { cls := .statement }, ancestors := [{ cls := .other, hasVartype := true }, { cls := .start }],
                   symbolInvalid := false, symbolIsNewline := false, msgExpectingNewline := false,
                   msgMissingModes := false, msgExpectingCloser := false, msgExpectingName := false,
                   msgExpectingVersion := false, line := 4, column := 6 } = true := by decide

example : CtxInv { ctx := { cls := .statement, hasOperation := true }, ancestors := [{ cls := .other }, { cls := .start }],
                   symbolInvalid := false, symbolIsNewline := false, msgExpectingNewline := false,
                   msgMissingModes := false, msgExpectingCloser := true, msgExpectingName := false,
                   msgExpectingVersion := false, line := 4, column := 6 } = true := by decide

end Blackbird
