/-
  C10, character level — the scanner is total: whatever the text contains, it is cut into tokens
  completely (characters no rule knows become ANY tokens, which no parser rule accepts, so the
  parser reports them), never stops early, and the EOF token a premature end is reported at sits
  behind the last character. Theorems about the model lexer on ARBITRARY text; its rules are the
  grammar's (`C14_grammar_is_model_grammar`); model lexer = shipped lexer is the LEX correspondence.
-/
import Blackbird.Lemmas.LexTotal

namespace Blackbird

/-- **The scanner never gets stuck**: at every non-empty rest of the text some rule matches, -/
theorem C10_lexer_never_stuck (x : Char) (t : List Char) : (bestRule lexRules (x :: t)).isSome = true :=
  bestRule_total x t

/-- **and every match makes progress inside the text**: at least one character, at most all. -/
theorem C10_lexer_match_bounds (s : List Char) (k : TokKind) (skip : Bool) (n : Nat)
    (h : bestRule lexRules s = some (k, skip, n)) : 1 ≤ n ∧ n ≤ s.length :=
  bestRule_bounds lexRules s k skip n h

/-- **The whole text is consumed**: the fuel `lex` passes (`length + 1`) is never exhausted - any larger
amount gives the same tokens. -/
theorem C10_lexer_consumes_input (s : List Char) (extra : Nat) (p : Pos) (acc : List Tok) :
    lexGo lexRules (s.length + 1 + extra) s p acc = lexGo lexRules (s.length + 1) s p acc :=
  lexGo_fuel_enough (s.length + 1) s (by omega) extra p acc

/-- **The final EOF token stands behind the last character** (line and column as the error listener
reports them for a script that ends too early). -/
theorem C10_eof_position_is_end_of_text (s : String) :
    (lex s).getLast? = some ⟨.EOF, "<EOF>", advance ⟨1, 0⟩ s.toList⟩ := by
  unfold lex
  exact lexGo_eof_pos _ _ (by omega) _ _

/-- a concrete text: two lines, the second ending without a line end -/
example : (lex "G | 0\nH | $").getLast? = some ⟨.EOF, "<EOF>", ⟨2, 5⟩⟩ := by decide +kernel

end Blackbird
