/-
  C11 — Ill-formed but grammatical programs are refused, never silently accepted.

  For every class of fault the property lists, the theorems show that the listener model cannot
  return a program: the faulty construct fails, and a failure of any item makes the whole walk
  fail (the error is never swallowed).
-/
import Blackbird.Props.C06
import Blackbird.Props.C05
import Blackbird.Parser

namespace Blackbird

variable {K : Type} [Scalar K]

/-! ### failures propagate: nothing after a failing step can turn the walk into a success -/

theorem foldlM_fails {σ α ε : Type} (f : σ → α → Except ε σ) (pre post : List α) (a : α) (s₀ : σ)
    (hstep : ∀ s, pre.foldlM f s₀ = .ok s → ∃ e, f s a = .error e) :
    ∃ e, (pre ++ a :: post).foldlM f s₀ = .error e := by
  rw [List.foldlM_append]
  cases hpre : pre.foldlM f s₀ with
  | error e => exact ⟨e, by simp [bind, Except.bind]⟩
  | ok s =>
    obtain ⟨e, he⟩ := hstep s hpre
    refine ⟨e, ?_⟩
    simp only [bind, Except.bind, List.foldlM_cons, he]

theorem mapM_fails {α β ε : Type} (f : α → Except ε β) (l : List α) (a : α) (ha : a ∈ l)
    (hf : ∃ e, f a = .error e) : ∃ e, l.mapM f = .error e := by
  induction l with
  | nil => cases ha
  | cons x t ih =>
    simp only [List.mapM_cons, bind, Except.bind]
    cases hx : f x with
    | error e => exact ⟨e, rfl⟩
    | ok y =>
      rcases List.mem_cons.mp ha with rfl | ha'
      · obtain ⟨e, he⟩ := hf; rw [he] at hx; cases hx
      · obtain ⟨e, he⟩ := ih ha'
        exact ⟨e, by simp [he]⟩

/-- a faulty item anywhere in a script makes the load fail: the walk over `pre ++ [it] ++ post`
is not a success when `it` fails in every state the items before it can produce -/
theorem C11_faulty_item_refused (o : SetOrder Int) (tdm : Bool) (incs : Includes K)
    (pre post : List Item) (it : Item) (st₀ : LState K)
    (hfault : ∀ st, pre.foldlM (execItem o tdm incs) st₀ = .ok st → ∃ e, execItem o tdm incs st it = .error e) :
    ∀ st', (pre ++ it :: post).foldlM (execItem o tdm incs) st₀ ≠ .ok st' := by
  intro st' h
  obtain ⟨e, he⟩ := foldlM_fails _ pre post it st₀ hfault
  rw [he] at h
  cases h

/-! ### undefined names, in every syntactic slot -/

/-- `x` occurs in an evaluated position of the expression -/
def mentions (x : String) : Expr → Bool
  | .var y _ => y = x
  | .idx y _ i => y = x || mentions x i
  | .brk e => mentions x e
  | .pos e => mentions x e
  | .neg e => mentions x e
  | .pow a b => mentions x a || mentions x b
  | .mul a b => mentions x a || mentions x b
  | .div a b => mentions x a || mentions x b
  | .add a b => mentions x a || mentions x b
  | .sub a b => mentions x a || mentions x b
  | .fn _ e => mentions x e
  | _ => false

/-- the use of an undefined name is reported with the identifier and the position of its token -/
theorem C11_undefined_name_reported (T : Tables K) (x : String) (pos : Pos) (h : dictGet T.vars x = none) :
    evalExpr T (.var x pos) = .error (.syntax .undefined x pos) ∧
    ∀ i, evalExpr T (.idx x pos i) = .error (.syntax .undefined x pos) := by
  constructor
  · simp [evalExpr, h]
  · intro i
    simp [evalExpr, h, bind, Except.bind, throw, throwThe, MonadExceptOf.throw]

/-- an expression that mentions an undefined name never evaluates to a value, whatever else it
contains and however deeply the name is nested -/
theorem C11_undefined_name_refused (T : Tables K) (x : String) (h : dictGet T.vars x = none)
    (e : Expr) (hm : mentions x e = true) : ∃ err, evalExpr T e = .error err := by
  induction e with
  | num k t => simp [mentions] at hm
  | reg t => simp [mentions] at hm
  | par p => simp [mentions] at hm
  | var y pos =>
    simp only [mentions, decide_eq_true_eq] at hm
    subst hm
    exact ⟨_, (C11_undefined_name_reported T y pos h).1⟩
  | idx y pos i ih =>
    simp only [mentions, Bool.or_eq_true, decide_eq_true_eq] at hm
    by_cases hy : y = x
    · subst hy
      exact ⟨_, (C11_undefined_name_reported T y pos h).2 i⟩
    · have hi := ih (hm.resolve_left hy)
      obtain ⟨err, he⟩ := hi
      simp only [evalExpr, bind, Except.bind, he]
      cases dictGet T.vars y with
      | none => exact ⟨.syntax .undefined y pos, by simp [throw, throwThe, MonadExceptOf.throw]⟩
      | some v => exact ⟨err, by simp⟩
  | brk e ih => simp only [mentions] at hm; simp only [evalExpr]; exact ih hm
  | pos e ih => simp only [mentions] at hm; simp only [evalExpr]; exact ih hm
  | neg e ih =>
    simp only [mentions] at hm
    obtain ⟨err, he⟩ := ih hm
    exact ⟨err, by simp [evalExpr, bind, Except.bind, he]⟩
  | fn f e ih =>
    simp only [mentions] at hm
    obtain ⟨err, he⟩ := ih hm
    exact ⟨err, by simp [evalExpr, bind, Except.bind, he]⟩
  | pow a b iha ihb =>
    simp only [mentions, Bool.or_eq_true] at hm
    simp only [evalExpr, bind, Except.bind]
    cases ha : evalExpr T a with
    | error e => exact ⟨e, rfl⟩
    | ok va =>
      rcases hm with hm | hm
      · obtain ⟨e, he⟩ := iha hm; rw [he] at ha; cases ha
      · obtain ⟨e, he⟩ := ihb hm; exact ⟨e, by simp [he]⟩
  | mul a b iha ihb =>
    simp only [mentions, Bool.or_eq_true] at hm
    simp only [evalExpr, bind, Except.bind]
    cases ha : evalExpr T a with
    | error e => exact ⟨e, rfl⟩
    | ok va =>
      rcases hm with hm | hm
      · obtain ⟨e, he⟩ := iha hm; rw [he] at ha; cases ha
      · obtain ⟨e, he⟩ := ihb hm; exact ⟨e, by simp [he]⟩
  | div a b iha ihb =>
    simp only [mentions, Bool.or_eq_true] at hm
    simp only [evalExpr, bind, Except.bind]
    cases ha : evalExpr T a with
    | error e => exact ⟨e, rfl⟩
    | ok va =>
      rcases hm with hm | hm
      · obtain ⟨e, he⟩ := iha hm; rw [he] at ha; cases ha
      · obtain ⟨e, he⟩ := ihb hm; exact ⟨e, by simp [he]⟩
  | add a b iha ihb =>
    simp only [mentions, Bool.or_eq_true] at hm
    simp only [evalExpr, bind, Except.bind]
    cases ha : evalExpr T a with
    | error e => exact ⟨e, rfl⟩
    | ok va =>
      rcases hm with hm | hm
      · obtain ⟨e, he⟩ := iha hm; rw [he] at ha; cases ha
      · obtain ⟨e, he⟩ := ihb hm; exact ⟨e, by simp [he]⟩
  | sub a b iha ihb =>
    simp only [mentions, Bool.or_eq_true] at hm
    simp only [evalExpr, bind, Except.bind]
    cases ha : evalExpr T a with
    | error e => exact ⟨e, rfl⟩
    | ok va =>
      rcases hm with hm | hm
      · obtain ⟨e, he⟩ := iha hm; rw [he] at ha; cases ha
      · obtain ⟨e, he⟩ := ihb hm; exact ⟨e, by simp [he]⟩

/-- … as a mode -/
theorem C11_undefined_in_mode (o : SetOrder Int) (incs : Includes K) (T : Tables K) (x : String)
    (h : dictGet T.vars x = none) (s : Stmt) (m : Expr) (hm : m ∈ s.modes) (hx : mentions x m = true) :
    ∃ err, stmtEffect o incs T s = .error err := by
  have : ∃ err, s.modes.mapM (evalMode T) = .error err := by
    apply mapM_fails _ _ m hm
    obtain ⟨err, he⟩ := C11_undefined_name_refused T x h m hx
    exact ⟨err, by simp [evalMode, he, bind, Except.bind]⟩
  obtain ⟨err, he⟩ := this
  exact ⟨err, by simp [stmtEffect, he, bind, Except.bind]⟩

/-- … as a positional argument -/
theorem C11_undefined_in_positional (o : SetOrder Int) (incs : Includes K) (T : Tables K) (x : String)
    (h : dictGet T.vars x = none) (s : Stmt) (a : Args) (hs : s.args = some a) (e : Expr)
    (he : ArgVal.expr e ∈ a.pos) (hx : mentions x e = true) :
    ∃ err, stmtEffect o incs T s = .error err := by
  have h1 : ∃ err, a.pos.mapM (evalArgVal T) = .error err := by
    apply mapM_fails _ _ (.expr e) he
    obtain ⟨err, h'⟩ := C11_undefined_name_refused T x h e hx
    exact ⟨err, by simp [evalArgVal, h']⟩
  obtain ⟨err, h1⟩ := h1
  have h2 : evalArgs T a = .error err := by simp [evalArgs, h1, bind, Except.bind]
  unfold stmtEffect
  cases hm : s.modes.mapM (evalMode T) with
  | error e' => exact ⟨e', by simp [bind, Except.bind]⟩
  | ok ms => exact ⟨err, by simp [bind, Except.bind, hs, h2]⟩

/-- … as a keyword argument, or as an element of a list-valued keyword argument -/
theorem evalKwargs_fails (T : Tables K) (kws : List (String × KwVal)) (kv : String × KwVal) (hkv : kv ∈ kws)
    (hf : ∃ err, evalKwVal T kv.2 = .error err) (acc : List (String × Val K)) :
    ∃ err, evalKwargs T kws acc = .error err := by
  induction kws generalizing acc with
  | nil => cases hkv
  | cons k rest ih =>
    obtain ⟨kn, kval⟩ := k
    simp only [evalKwargs, bind, Except.bind]
    cases hk : evalKwVal T kval with
    | error e => exact ⟨e, rfl⟩
    | ok r =>
      rcases List.mem_cons.mp hkv with rfl | hrest
      · obtain ⟨e, he⟩ := hf; simp only at he; rw [he] at hk; cases hk
      · cases r with
        | none => exact ih hrest acc
        | some y => exact ih hrest _

theorem C11_undefined_in_keyword (o : SetOrder Int) (incs : Includes K) (T : Tables K) (x : String)
    (h : dictGet T.vars x = none) (s : Stmt) (a : Args) (hs : s.args = some a) (k : String) (kv : KwVal)
    (hk : (k, kv) ∈ a.kw)
    (hx : (∃ e, kv = .one (.expr e) ∧ mentions x e = true) ∨
          (∃ vs e, kv = .list vs ∧ ArgVal.expr e ∈ vs ∧ mentions x e = true)) :
    ∃ err, stmtEffect o incs T s = .error err := by
  have hkv : ∃ err, evalKwVal T kv = .error err := by
    rcases hx with ⟨e, rfl, hm⟩ | ⟨vs, e, rfl, hmem, hm⟩
    · obtain ⟨err, h'⟩ := C11_undefined_name_refused T x h e hm
      exact ⟨err, by simp [evalKwVal, evalArgVal, h', Functor.map, Except.map]⟩
    · cases vs with
      | nil => cases hmem
      | cons v0 vt =>
        have : ∃ err, (v0 :: vt).mapM (fun v => do valToAtom (← evalArgVal T v)) = .error err := by
          apply mapM_fails _ _ (.expr e) hmem
          obtain ⟨err, h'⟩ := C11_undefined_name_refused T x h e hm
          exact ⟨err, by simp [evalArgVal, h', bind, Except.bind]⟩
        obtain ⟨err, he⟩ := this
        simp only [bind, Except.bind] at he
        exact ⟨err, by simp only [evalKwVal, bind, Except.bind, he]⟩
  obtain ⟨err, h2⟩ := evalKwargs_fails T a.kw (k, kv) hk hkv []
  unfold stmtEffect
  cases hm : s.modes.mapM (evalMode T) with
  | error e' => exact ⟨e', by simp [bind, Except.bind]⟩
  | ok ms =>
    cases hp : a.pos.mapM (evalArgVal T) with
    | error e' => exact ⟨e', by simp [bind, Except.bind, hs, evalArgs, hp]⟩
    | ok ps => exact ⟨err, by simp [bind, Except.bind, hs, evalArgs, hp, h2]⟩

/-- … in the initialiser of a scalar declaration -/
theorem C11_undefined_in_declaration (T : Tables K) (x : String) (h : dictGet T.vars x = none)
    (ty : VarType) (n : VName) (e : Expr) (hx : mentions x e = true) :
    ∃ err, varEffect T ty n (.expr e) = .error err := by
  unfold varEffect checkName
  cases n.kind with
  | regref => exact ⟨_, rfl⟩
  | reserved => exact ⟨_, rfl⟩
  | plain =>
    obtain ⟨err, h'⟩ := C11_undefined_name_refused T x h e hx
    simp only [bind, Except.bind, liftE, evalArgVal, h']
    exact ⟨_, rfl⟩

/-- … in the value list of a loop header -/
theorem C11_undefined_in_loop_list (T : Tables K) (x : String) (h : dictGet T.vars x = none)
    (lb rb : Option Brk) (vs : List ArgVal) (e : Expr) (he : ArgVal.expr e ∈ vs) (hx : mentions x e = true) :
    ∃ err, loopVals T (.list lb vs rb) = .error err := by
  simp only [loopVals]
  apply mapM_fails _ _ (.expr e) he
  obtain ⟨err, h'⟩ := C11_undefined_name_refused T x h e hx
  exact ⟨err, by simp [evalArgVal, h']⟩

/-- … in a target / type option -/
theorem C11_undefined_in_metadata_option (T : Tables K) (x : String) (h : dictGet T.vars x = none)
    (dev : String) (a : Args) (k : String) (e : Expr) (hk : (k, KwVal.one (.expr e)) ∈ a.kw)
    (hx : mentions x e = true) : ∃ err, evalOptions T (some (dev, some a)) = .error err := by
  have hkv : ∃ err, evalKwVal T (KwVal.one (.expr e)) = .error err := by
    obtain ⟨err, h'⟩ := C11_undefined_name_refused T x h e hx
    exact ⟨err, by simp [evalKwVal, evalArgVal, h', Functor.map, Except.map]⟩
  obtain ⟨err, h2⟩ := evalKwargs_fails T a.kw (k, .one (.expr e)) hk hkv []
  cases hp : a.pos.mapM (evalArgVal T) with
  | error e' => exact ⟨e', by simp [evalOptions, evalArgs, hp, bind, Except.bind]⟩
  | ok ps => exact ⟨err, by simp [evalOptions, evalArgs, hp, h2, bind, Except.bind]⟩

/-! ### reserved names -/

/-- declaring `qN` or `name` / `version` / `target` / `type` as a scalar or an array is refused with
the identifier and the position of its token -/
theorem C11_reserved_name_refused (tdm : Bool) (T : Tables K) (ty : VarType) (n : VName) (init : ArgVal)
    (pos : Pos) (shape : Option (List String)) (body : ArrBody) :
    (n.kind = .regref →
      varEffect T ty n init = .error (.syntax .reservedRegref n.text n.pos, T) ∧
      arrEffect tdm T ty pos n shape body = .error (.syntax .reservedRegref n.text n.pos, T)) ∧
    (n.kind = .reserved →
      varEffect T ty n init = .error (.syntax .reservedKeyword n.text n.pos, T) ∧
      arrEffect tdm T ty pos n shape body = .error (.syntax .reservedKeyword n.text n.pos, T)) := by
  constructor <;> intro hk <;> constructor <;>
    simp [varEffect, arrEffect, checkName, hk, bind, Except.bind]

/-- the parser classifies exactly these tokens as invalid names -/
theorem C11_reserved_tokens :
    isNameTok .REGREF = some .regref ∧ isNameTok .PROGNAME = some .reserved ∧
    isNameTok .VERSION = some .reserved ∧ isNameTok .TARGET = some .reserved ∧
    isNameTok .PROGTYPE = some .reserved ∧ isNameTok .NAME = some .plain := ⟨rfl, rfl, rfl, rfl, rfl, rfl⟩

/-! ### non-integer modes -/

/-- a mode of float, complex or string value is refused -/
theorem C11_non_integer_mode_refused (T : Tables K) (e : Expr) (v : Val K) (hv : evalExpr T e = .ok v)
    (hni : (∀ i, v ≠ .atom (.num (.int i))) ∧ (∀ b, v ≠ .atom (.bool b))) :
    evalMode T e = .error .value := by
  unfold evalMode
  simp only [hv, bind, Except.bind]
  cases v with
  | atom a =>
    cases a with
    | num n =>
      cases n with
      | int i => exact absurd rfl (hni.1 i)
      | real x => rfl
      | cplx a b => rfl
    | bool b => exact absurd rfl (hni.2 b)
    | str s => rfl
    | sym e => rfl
    | pname s => rfl
  | arr _ _ _ _ => rfl
  | list _ => rfl
  | rrt _ => rfl

/-- … whatever the statement is: an ordinary operation or the call of an included program or template (the
include dictionary `incs` is arbitrary; the modes are checked before it is consulted) -/
theorem C11_non_integer_mode_refused_in_any_statement (o : SetOrder Int) (incs : Includes K) (T : Tables K) (s : Stmt)
    (m : Expr) (hm : m ∈ s.modes) (v : Val K) (hv : evalExpr T m = .ok v)
    (hni : (∀ i, v ≠ .atom (.num (.int i))) ∧ (∀ b, v ≠ .atom (.bool b))) :
    ∃ err, stmtEffect o incs T s = .error err := by
  have : ∃ err, s.modes.mapM (evalMode T) = .error err :=
    mapM_fails _ _ m hm ⟨_, C11_non_integer_mode_refused T m v hv hni⟩
  obtain ⟨err, he⟩ := this
  exact ⟨err, by simp [stmtEffect, he, bind, Except.bind]⟩

/-! ### complex values for int / float variables and arrays -/

theorem C11_complex_scalar_refused (re im : K) :
    castScalar (K := K) .int (.atom (.num (.cplx re im))) = .error .type ∧
    castScalar (K := K) .float (.atom (.num (.cplx re im))) = .error .type := ⟨rfl, rfl⟩

theorem C11_complex_element_refused (re im : K) :
    (match castElem (K := K) .int (.atom (.num (.cplx re im))) with | .typeErr => true | _ => false) = true ∧
    (match castElem (K := K) .float (.atom (.num (.cplx re im))) with | .typeErr => true | _ => false) = true :=
  ⟨rfl, rfl⟩

/-! ### included programs called with the wrong number of modes or wrong keyword arguments -/

theorem C11_include_arity_refused (o : SetOrder Int) (incs : Includes K) (T : Tables K) (s : Stmt)
    (file : String) (bb : Program K) (hinc : dictGet incs s.op = some (file, bb))
    (modes : List Int) (hm : s.modes.mapM (evalMode T) = .ok modes)
    (hlen : modes.length ≠ (sortedModes o bb.modes).length) :
    ∃ err, stmtEffect o incs T s = .error err := by
  unfold stmtEffect
  simp only [hm, bind, Except.bind]
  cases s.args with
  | none => exact ⟨.value, by simp [hinc, hlen, pure, Except.pure]⟩
  | some a =>
    cases hea : evalArgs T a with
    | error e => exact ⟨e, by simp [hea]⟩
    | ok r => exact ⟨.value, by simp [hea, hinc, hlen, pure, Except.pure]⟩

theorem C11_include_keywords_refused (o : SetOrder Int) (incs : Includes K) (T : Tables K) (s : Stmt)
    (file : String) (bb : Program K) (hinc : dictGet incs s.op = some (file, bb)) :
    -- a non-template called with arguments, a template called without
    (∀ a, s.args = some a → bb.isTemplate = false → ∃ err, stmtEffect o incs T s = .error err) ∧
    (s.args = none → bb.isTemplate = true → ∃ err, stmtEffect o incs T s = .error err) := by
  constructor
  · intro a ha hnt
    unfold stmtEffect
    cases hm : s.modes.mapM (evalMode T) with
    | error e => exact ⟨e, by simp [bind, Except.bind]⟩
    | ok modes =>
      simp only [bind, Except.bind, ha]
      cases hea : evalArgs T a with
      | error e => exact ⟨e, by simp [hea]⟩
      | ok r =>
        simp only [hea, pure, Except.pure, hinc]
        by_cases hl : modes.length ≠ (sortedModes o bb.modes).length
        · exact ⟨.value, by simp [hl]⟩
        · exact ⟨.value, by simp [hl, hnt]⟩
  · intro ha ht
    unfold stmtEffect
    cases hm : s.modes.mapM (evalMode T) with
    | error e => exact ⟨e, by simp [bind, Except.bind]⟩
    | ok modes =>
      simp only [bind, Except.bind, ha, pure, Except.pure, hinc]
      by_cases hl : modes.length ≠ (sortedModes o bb.modes).length
      · exact ⟨.value, by simp [hl]⟩
      · exact ⟨.value, by simp [hl, ht]⟩

/-! ### non-vacuity -/

example : mentions "y" (.add (.num .int "1") (.mul (.var "y" ⟨3, 4⟩) (.num .int "2"))) = true := by decide
example : evalExpr (Tables.empty : Tables ZS) (.add (.num .int "1") (.var "y" ⟨3, 4⟩))
    = .error (.syntax .undefined "y" ⟨3, 4⟩) := by decide

end Blackbird
