/-
  C11 — an array written as ONE template parameter needs a declared shape: without it the parameter
  cannot be split into elements and the declaration is refused (`exitArrayvar`, "Array template var
  ... has no shape defined"), for every numeric element type, every state of the tables, tdm or not.
-/
import Blackbird.Props.C11

namespace Blackbird
variable {K : Type} [Scalar K]

theorem C11_array_parameter_without_shape_refused (tdm : Bool) (T : Tables K) (ty : VarType) (pos : Pos)
    (n : VName) (hn : n.kind = .plain) (hty : ty = .int ∨ ty = .float ∨ ty = .complex) (p : String) :
    arrEffect tdm T ty pos n none (.rows [[.par p]]) =
      .error (.syntax .noShape n.text pos, { T with params := T.params ++ [.sym p] }) := by
  rcases hty with rfl | rfl | rfl <;>
    simp [arrEffect, checkName, hn, bind, Except.bind, liftE, evalElem, castRowElem, dtypeOf, elemPars,
      pure, Except.pure, List.mapM_cons, List.mapM_nil]

/-- the premise is satisfiable: an ordinary name -/
example : (⟨.plain, .NAME, "A", ⟨0, 0⟩⟩ : VName).kind = .plain := rfl

end Blackbird
