/-
  C12 — Each load is independent of every earlier load in the process.

  `loadStep o fs cwd T sc` is the model of `parse()`: `T` are the module-level tables as earlier
  loads left them; the result is the outcome (program or error) and the tables left behind.
-/
import Blackbird.Listener
import Blackbird.Load
import Blackbird.Legacy
import Blackbird.Lemmas.ToyScalar

namespace Blackbird

variable {K : Type} [Scalar K]

/-- the outcome of a load does not depend on the tables it starts from -/
theorem C12_load_independent (o : SetOrder Int) (fs : FS) (cwd : String) (T₁ T₂ : Tables K) (sc : Script) :
    (loadStep o fs cwd T₁ sc).1 = (loadStep o fs cwd T₂ sc).1 := rfl

/-- nor do the tables it leaves behind -/
theorem C12_tables_after_independent (o : SetOrder Int) (fs : FS) (cwd : String) (T₁ T₂ : Tables K) (sc : Script) :
    (loadStep o fs cwd T₁ sc).2 = (loadStep o fs cwd T₂ sc).2 := rfl

/-- the same for `loads` on texts (lexer and parser included) -/
theorem C12_loads_independent (fs : FS) (T₁ T₂ : Tables K) (text : String) :
    (loadsText fs T₁ text).1 = (loadsText fs T₂ text).1 := by
  unfold loadsText
  cases parseText text with
  | none => rfl
  | some sc => rfl

/-- a history of loads in one process: the tables are threaded from call to call -/
def runHistory (o : SetOrder Int) (fs : FS) (cwd : String) : List Script → Tables K → List (Except Err (Program K))
  | [], _ => []
  | sc :: rest, T => (loadStep o fs cwd T sc).1 :: runHistory o fs cwd rest (loadStep o fs cwd T sc).2

/-- every load of every finite history has the outcome it has in a pristine process -/
theorem C12_history_independent (o : SetOrder Int) (fs : FS) (cwd : String) (h : List Script) (T : Tables K) :
    runHistory o fs cwd h T = h.map fun sc => (loadStep o fs cwd (Tables.empty : Tables K) sc).1 := by
  induction h generalizing T with
  | nil => rfl
  | cons sc rest ih =>
    simp only [runHistory, List.map_cons]
    rw [ih]
    rfl

/-- a load that succeeds leaves empty tables behind -/
theorem C12_success_leaves_nothing (o : SetOrder Int) (fs : FS) (cwd : String) (T : Tables K) (sc : Script)
    (p : Program K) (h : (loadStep o fs cwd T sc).1 = .ok p) :
    (loadStep o fs cwd T sc).2 = (Tables.empty : Tables K) := by
  unfold loadStep at h ⊢
  simp only at h ⊢
  cases hr : runScript o fs 16 cwd (Tables.empty : Tables K) sc with
  | error e => simp [hr] at h
  | ok r =>
    obtain ⟨p', T', incs⟩ := r
    -- runScript returns empty tables on success
    cases hfuel : (16 : Nat) with
    | zero => cases hfuel
    | succ n =>
      have : runScript o fs 16 cwd (Tables.empty : Tables K) sc = .ok (p', T', incs) := hr
      clear hr h
      unfold runScript at this
      simp only [bind, Except.bind] at this
      repeat' (split at this <;> try (cases this))
      all_goals first | rfl | (simp_all)

/-! ### the pre-repair mechanism violates the property (witness replayed on every run) -/

def noPos : Pos := ⟨0, 0⟩

/-- `name a / version 1.0 / float x = 0.5 / G(y) | 0` : fails with `y` undefined after defining x -/
def failingScript : Script :=
  ⟨⟨"a", "1.0", none, none, []⟩,
   [.var .float ⟨.plain, .NAME, "x", noPos⟩ (.expr (.num .float "0.5")),
    .stmt ⟨"G", false, some ⟨[.expr (.var "y" noPos)], []⟩, none, [.num .int "0"], none⟩]⟩

/-- `name b / version 1.0 / target foo (opt=x)` -/
def optionScript : Script :=
  ⟨⟨"b", "1.0", some ("foo", some ⟨[], [("opt", .one (.expr (.var "x" noPos)))]⟩), none, []⟩, []⟩

def emptyFS : FS := ⟨"/", []⟩

def isOk {α β} : Except α β → Bool
  | .ok _ => true
  | .error _ => false

/-- before the repair the second load succeeded after the failed first one, and failed in a
pristine process -/
theorem C12_legacy_depends_on_history :
    let T := (Legacy.loadStep SetOrder.id emptyFS "/" (Tables.empty : Tables ZS) failingScript).2
    isOk (Legacy.loadStep SetOrder.id emptyFS "/" T optionScript).1 = true ∧
    isOk (Legacy.loadStep SetOrder.id emptyFS "/" (Tables.empty : Tables ZS) optionScript).1 = false := by
  decide

/-- non-vacuity: with the repaired `loadStep` the same history behaves as in a pristine process -/
example :
    (runHistory SetOrder.id emptyFS "/" [failingScript, optionScript] (Tables.empty : Tables ZS)).map isOk
      = [false, false] := by
  decide

end Blackbird
