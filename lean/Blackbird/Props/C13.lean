/-
  C13 — Read-only operations leave programs unchanged; instances are independent.

  Every read-only operation of the API is modelled as a function that returns, next to its
  result, the receiver as the operation leaves it. For the operations that the code implements
  without touching the receiver at all (serialisation, attribute reads, instantiation on a deep
  copy) the model returns the argument itself; for `to_DiGraph` and `match_template`, which
  iterate over the operation dictionaries and did write into them, the returned program comes
  from the model of the function (`toDiGraph`, `matchTemplate`).

  The second sentence of the property (independence of instances) is an aliasing property of
  Python objects: the functional model has no sharing to violate, and it is decided by the
  harness only (partial).
-/
import Blackbird.Match
import Blackbird.Legacy
import Blackbird.Lemmas.ToyScalar

namespace Blackbird

variable {K : Type} [Scalar K]

/-- the read-only operations, with their arguments -/
inductive ROp (K : Type)
  | dumps
  | call (kwargs : List (String × Val K))
  | toGraph
  | matchAgainst (program : Program K)      -- receiver is the template
  | matchedBy (template : Program K)        -- receiver is the program
  | readAttrs

/-- the receiver after one read-only operation -/
def afterROp (p : Program K) : ROp K → Program K
  | .dumps => p
  | .call _ => p                                -- `__call__` works on `copy.deepcopy(self)`
  | .toGraph => (toDiGraph p).2
  | .matchAgainst q => (matchTemplate p q).2.1
  | .matchedBy t => (matchTemplate t p).2.2
  | .readAttrs => p

omit [Scalar K] in
theorem C13_toDiGraph_readonly (p : Program K) : (toDiGraph p).2 = p := rfl

theorem C13_matchTemplate_readonly (t p : Program K) : (matchTemplate t p).2 = (t, p) := rfl

/-- one read-only operation leaves the program unchanged -/
theorem C13_readonly_step (p : Program K) (op : ROp K) : afterROp p op = p := by
  cases op <;> rfl

/-- any finite sequence of read-only operations leaves the program, hence its serialisation
and content, unchanged -/
theorem C13_readonly_sequence (p : Program K) (ops : List (ROp K)) : ops.foldl afterROp p = p := by
  induction ops generalizing p with
  | nil => rfl
  | cons op rest ih => simp only [List.foldl_cons, C13_readonly_step, ih]

theorem C13_serialisation_unchanged (p : Program K) (ops : List (ROp K)) :
    serialize (ops.foldl afterROp p) = serialize p := by
  rw [C13_readonly_sequence]

/-! ### the pre-repair graph conversion violates the property -/

/-- `name a / version 1.0 / Vac | 0` -/
def vacProgram : Program ZS :=
  ⟨"a", "1.0", (none, []), (none, []), [⟨"Vac", none, [0]⟩], [], [], [0]⟩

def serializedOk {K : Type} (r : Except Err (List (Line K))) : List (Line K) :=
  match r with
  | .ok ls => ls
  | .error _ => []

theorem C13_legacy_toDiGraph_changes_serialisation :
    serializedOk (serialize (Legacy.toDiGraph vacProgram).2) ≠ serializedOk (serialize vacProgram) := by
  decide

/-- non-vacuity: the repaired conversion on the same program, followed by other operations -/
example : serialize ([ROp.toGraph, .dumps, .matchAgainst vacProgram].foldl afterROp vacProgram)
    = serialize vacProgram := C13_serialisation_unchanged _ _

example : (toDiGraph vacProgram).1.nodes.length = 1 := by decide

end Blackbird
