/-
  C14 (static part) — the tokenisation discipline of the model lexer is ANTLR's: at each position
  the longest match over all rules, the earliest rule winning ties. (The part of C14 that is about
  the files of the current tree is `GenProps/C14.lean`, re-checked against regenerated data.)
-/
import Blackbird.Lexer
import Blackbird.Lemmas.Longest

namespace Blackbird

/-- the candidate a rule contributes at the head of `s`: its longest non-empty match -/
def ruleMatch (s : List Char) (r : TokKind × Re × Bool) : Option Nat :=
  match r.2.1.longest s with
  | some n => if n = 0 then none else some n
  | none => none

theorem bestRule_step (acc : Option (TokKind × Bool × Nat)) (r : TokKind × Re × Bool) (s : List Char) :
    bestStep s acc r =
    match ruleMatch s r, acc with
    | none, a => a
    | some n, none => some (r.1, r.2.2, n)
    | some n, some (k, sk, m) => if n > m then some (r.1, r.2.2, n) else some (k, sk, m) := by
  obtain ⟨k, re, sk⟩ := r
  simp only [ruleMatch, bestStep]
  cases h : re.longest s with
  | none => rfl
  | some n =>
    by_cases hn : n = 0
    · simp [hn]
    · cases acc with
      | none => simp [hn]
      | some a => obtain ⟨k', sk', m⟩ := a; simp [hn]

/-- fold invariant: the final length is at least every candidate seen and at least the incumbent -/
theorem bestRule_fold (rules : List (TokKind × Re × Bool)) (s : List Char) (acc : Option (TokKind × Bool × Nat))
    (res : TokKind × Bool × Nat) (h : rules.foldl (bestStep s) acc = some res) :
    (∀ r ∈ rules, ∀ n, ruleMatch s r = some n → n ≤ res.2.2) ∧
    (∀ a, acc = some a → a.2.2 ≤ res.2.2) := by
  induction rules generalizing acc with
  | nil =>
    simp only [List.foldl_nil] at h
    refine ⟨fun r hr => (by cases hr), fun a ha => ?_⟩
    rw [ha] at h; cases h; exact Nat.le_refl _
  | cons r rest ih =>
    simp only [List.foldl_cons] at h
    rw [bestRule_step] at h
    have key := ih _ h
    refine ⟨?_, ?_⟩
    · intro r' hr' n hn
      rcases List.mem_cons.mp hr' with rfl | hmem
      · rw [hn] at key
        cases acc with
        | none => exact key.2 _ rfl
        | some a =>
          obtain ⟨k, sk, m⟩ := a
          simp only at key
          by_cases hgt : n > m
          · simp only [hgt, if_true] at key; exact key.2 _ rfl
          · simp only [hgt, if_false] at key
            have := key.2 _ rfl
            simp only at this
            omega
      · exact key.1 r' hmem n hn
    · intro a ha
      subst ha
      obtain ⟨k, sk, m⟩ := a
      cases hm : ruleMatch s r with
      | none => rw [hm] at key; exact key.2 _ rfl
      | some n =>
        rw [hm] at key
        simp only at key
        by_cases hgt : n > m
        · simp only [hgt, if_true] at key
          have := key.2 _ rfl
          simp only at this ⊢
          omega
        · simp only [hgt, if_false] at key
          exact key.2 _ rfl

/-- **Longest match.** The rule chosen at a position matches at least as much as every rule. -/
theorem C14_longest_match (rules : List (TokKind × Re × Bool)) (s : List Char) (k : TokKind) (sk : Bool) (n : Nat)
    (h : bestRule rules s = some (k, sk, n)) :
    ∀ r ∈ rules, ∀ m, ruleMatch s r = some m → m ≤ n := by
  unfold bestRule at h
  exact (bestRule_fold rules s none (k, sk, n) h).1

/-- **Earliest rule wins ties**, on the grammar's own examples: `pi` is PI not NAME, `2` is INT
(not FLOAT-less SEQUENCE), `2.5` is FLOAT not SEQUENCE, four spaces are TAB not SPACE, `Measure`
is MEASURE not NAME, `q0` is REGREF not NAME; and longest match: `pix` is NAME, `q0a` is NAME,
`1,2` is SEQUENCE, `3+2j` is COMPLEX, five spaces are skipped. -/
theorem C14_tie_break_examples :
    (bestRule lexRules "pi".toList).map (·.1) = some .PI ∧
    (bestRule lexRules "2".toList).map (·.1) = some .INT ∧
    (bestRule lexRules "2.5".toList).map (·.1) = some .FLOAT ∧
    (bestRule lexRules "    x".toList).map (·.1) = some .TAB ∧
    (bestRule lexRules "Measure".toList).map (·.1) = some .MEASURE ∧
    (bestRule lexRules "q0".toList).map (·.1) = some .REGREF ∧
    (bestRule lexRules "pix".toList).map (·.1) = some .NAME ∧
    (bestRule lexRules "q0a".toList).map (·.1) = some .NAME ∧
    (bestRule lexRules "1,2".toList).map (·.1) = some .SEQUENCE ∧
    (bestRule lexRules "3+2j".toList).map (·.1) = some .COMPLEX ∧
    (bestRule lexRules "     x".toList).map (fun r => (r.1, r.2.1)) = some (.SPACE, true) := by
  decide

/-- every character starts some token: the last rule matches any single character -/
theorem C14_any_rule_last : lexRules.getLast? = some (.ANY, Re.nset [], false) := by decide

/-- the model has exactly the 61 token kinds of the grammar (plus the end-of-input marker) -/
theorem C14_sixty_one_token_kinds : TokKind.all.length = 61 ∧ lexRules.length = 61 ∧
    lexRules.map (·.1) = TokKind.all := by decide


/-- **Longest match, in terms of the rule's language.** What a rule contributes at a position is the
length of the longest prefix that lies in the language of its regular expression (`reMatches`, the
same notion of language as in the theorems about the shipped automaton, `GenProps/C14ATN.lean`);
nothing longer is in the language, and `none` means no prefix at all is. -/
theorem C14_longest_is_longest_in_language (r : Re) (s : List Char) :
    (∀ n, Re.longest r s = some n →
      ATN.reMatches r (ATN.codes (s.take n)) = true ∧
      ∀ k, n < k → k ≤ s.length → ATN.reMatches r (ATN.codes (s.take k)) = false) ∧
    (Re.longest r s = none → ∀ k, k ≤ s.length → ATN.reMatches r (ATN.codes (s.take k)) = false) :=
  ATN.longest_spec r s

/-- fold invariant for ties: either the incumbent survives (no later rule matches strictly more), or the
result is the FIRST rule, in list order, that attains the maximal match length -/
theorem bestRule_first (rules : List (TokKind × Re × Bool)) (s : List Char) (acc : Option (TokKind × Bool × Nat))
    (res : TokKind × Bool × Nat) (h : rules.foldl (bestStep s) acc = some res) :
    (acc = some res ∧ ∀ r ∈ rules, ∀ n, ruleMatch s r = some n → n ≤ res.2.2) ∨
    (∃ pre r post n, rules = pre ++ r :: post ∧ ruleMatch s r = some n ∧ res = (r.1, r.2.2, n) ∧
      (∀ x ∈ pre, ∀ m, ruleMatch s x = some m → m < n) ∧ (∀ a, acc = some a → a.2.2 < n) ∧
      (∀ x ∈ post, ∀ m, ruleMatch s x = some m → m ≤ n)) := by
  induction rules generalizing acc with
  | nil =>
    simp only [List.foldl_nil] at h
    exact Or.inl ⟨h, fun r hr => by cases hr⟩
  | cons r rest ih =>
    simp only [List.foldl_cons] at h
    rw [bestRule_step] at h
    cases hm : ruleMatch s r with
    | none =>
      rw [hm] at h
      rcases ih acc h with ⟨ha, hb⟩ | ⟨pre, x, post, n, hsplit, hx, hres, hpre, hacc, hpost⟩
      · refine Or.inl ⟨ha, ?_⟩
        intro y hy k hk
        rcases List.mem_cons.mp hy with rfl | hy'
        · rw [hm] at hk; cases hk
        · exact hb y hy' k hk
      · refine Or.inr ⟨r :: pre, x, post, n, by rw [hsplit]; rfl, hx, hres, ?_, hacc, hpost⟩
        intro y hy k hk
        rcases List.mem_cons.mp hy with rfl | hy'
        · rw [hm] at hk; cases hk
        · exact hpre y hy' k hk
    | some n =>
      rw [hm] at h
      cases acc with
      | none =>
        simp only at h
        rcases ih _ h with ⟨ha, hb⟩ | ⟨pre, x, post, nx, hsplit, hx, hres, hpre, hacc, hpost⟩
        · simp only [Option.some.injEq] at ha
          refine Or.inr ⟨[], r, rest, n, rfl, hm, ha.symm, (by intro y hy; cases hy), (by intro a ha'; cases ha'), ?_⟩
          intro y hy k hk
          have := hb y hy k hk
          rw [← ha] at this
          exact this
        · have hlt := hacc _ rfl
          simp only at hlt
          refine Or.inr ⟨r :: pre, x, post, nx, by rw [hsplit]; rfl, hx, hres, ?_, (by intro a ha'; cases ha'), hpost⟩
          intro y hy k hk
          rcases List.mem_cons.mp hy with rfl | hy'
          · rw [hm] at hk; cases hk; exact hlt
          · exact hpre y hy' k hk
      | some a =>
        obtain ⟨k0, sk0, m0⟩ := a
        simp only at h
        by_cases hgt : n > m0
        · simp only [hgt, if_true] at h
          rcases ih _ h with ⟨ha, hb⟩ | ⟨pre, x, post, nx, hsplit, hx, hres, hpre, hacc, hpost⟩
          · simp only [Option.some.injEq] at ha
            refine Or.inr ⟨[], r, rest, n, rfl, hm, ha.symm, (by intro y hy; cases hy), ?_, ?_⟩
            · intro a ha'; cases ha'; exact hgt
            · intro y hy k hk
              have := hb y hy k hk
              rw [← ha] at this
              exact this
          · have hlt := hacc _ rfl
            simp only at hlt
            refine Or.inr ⟨r :: pre, x, post, nx, by rw [hsplit]; rfl, hx, hres, ?_, ?_, hpost⟩
            · intro y hy k hk
              rcases List.mem_cons.mp hy with rfl | hy'
              · rw [hm] at hk; cases hk; exact hlt
              · exact hpre y hy' k hk
            · intro a ha'; cases ha'; simp only; omega
        · simp only [hgt, if_false] at h
          rcases ih _ h with ⟨ha, hb⟩ | ⟨pre, x, post, nx, hsplit, hx, hres, hpre, hacc, hpost⟩
          · refine Or.inl ⟨ha, ?_⟩
            simp only [Option.some.injEq] at ha
            intro y hy k hk
            rcases List.mem_cons.mp hy with rfl | hy'
            · rw [hm] at hk; cases hk
              rw [← ha]; simp only; omega
            · exact hb y hy' k hk
          · have hlt := hacc _ rfl
            simp only at hlt
            refine Or.inr ⟨r :: pre, x, post, nx, by rw [hsplit]; rfl, hx, hres, ?_, hacc, hpost⟩
            intro y hy k hk
            rcases List.mem_cons.mp hy with rfl | hy'
            · rw [hm] at hk; cases hk; omega
            · exact hpre y hy' k hk

/-- **Earliest rule wins ties.** The rule chosen at a position is the first one, in grammar order, whose
match is as long as any rule's: every earlier rule matches strictly less, every later rule at most as much. -/
theorem C14_earliest_rule_wins_ties (rules : List (TokKind × Re × Bool)) (s : List Char) (k : TokKind) (sk : Bool) (n : Nat)
    (h : bestRule rules s = some (k, sk, n)) :
    ∃ pre r post, rules = pre ++ r :: post ∧ r.1 = k ∧ r.2.2 = sk ∧ ruleMatch s r = some n ∧
      (∀ x ∈ pre, ∀ m, ruleMatch s x = some m → m < n) ∧ (∀ x ∈ post, ∀ m, ruleMatch s x = some m → m ≤ n) := by
  unfold bestRule at h
  rcases bestRule_first rules s none (k, sk, n) h with ⟨ha, _⟩ | ⟨pre, r, post, n', hsplit, hr, hres, hpre, _, hpost⟩
  · cases ha
  · simp only [Prod.mk.injEq] at hres
    obtain ⟨h1, h2, h3⟩ := hres
    subst h3
    exact ⟨pre, r, post, hsplit, h1.symm, h2.symm, hr, hpre, hpost⟩


end Blackbird
