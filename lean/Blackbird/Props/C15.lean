/-
  C15 — TDM programs pass p-arrays by name and keep their data.
-/
import Blackbird.Listener
import Blackbird.Program
import Blackbird.Lemmas.Dict
import Blackbird.Lemmas.ToyScalar
import Blackbird.Lemmas.UnparseTdm
import Blackbird.Props.C09

namespace Blackbird

variable {K : Type} [Scalar K]

/-- `p` followed by at least one digit -/
theorem C15_isPType_examples : isPType "p0" = true ∧ isPType "p12" = true ∧ isPType "p" = false ∧
    isPType "q0" = false ∧ isPType "p0a" = false ∧ isPType "phi" = false := by decide

/-- a p-array that is registered and declared as an array is delivered as its NAME, positionally
or by keyword alike (both go through `evalExpr`) -/
theorem C15_parray_by_name (T : Tables K) (x : String) (pos : Pos) (dt : DType) (r c : Nat)
    (flat : List (SExpr K)) (hreg : T.params.contains (.pname x) = true)
    (hvar : dictGet T.vars x = some (.arr dt r c flat)) :
    evalExpr T (.var x pos) = .ok (.atom (.pname x)) ∧
    evalArgVal T (.expr (.var x pos)) = .ok (.atom (.pname x)) ∧
    evalKwVal T (.one (.expr (.var x pos))) = .ok (some (.atom (.pname x))) := by
  have h1 : evalExpr T (.var x pos) = .ok (.atom (.pname x)) := by
    simp only [evalExpr, hvar, hreg, if_true]
  exact ⟨h1, by simp [evalArgVal, h1], by simp [evalKwVal, evalArgVal, h1, Functor.map, Except.map]⟩

/-- every other variable is passed by value as usual -/
theorem C15_others_by_value (T : Tables K) (x : String) (pos : Pos) (v : Val K)
    (hreg : T.params.contains (.pname x) = false) (hvar : dictGet T.vars x = some v) :
    evalExpr T (.var x pos) = .ok v := by
  simp only [evalExpr, hvar, hreg, Bool.false_eq_true, if_false]

/-- declaring an array named `p<digits>` in a tdm program registers the name and stores the
array under that name; in any other program, or under any other name, nothing is registered -/
theorem C15_declaration_registers (T : Tables K) (v : Val K) (name : String) (tdm : Bool) :
    let T' : Tables K := if tdm && isPType name then { T with params := T.params ++ [.pname name] } else T
    let Tf : Tables K := { T' with vars := dictSet T'.vars name v }
    dictGet Tf.vars name = some v ∧
    (tdm = true → isPType name = true → Tf.params.contains (.pname name) = true) ∧
    (tdm = false ∨ isPType name = false → Tf.params = T.params) := by
  refine ⟨?_, ?_, ?_⟩
  · simp only
    split <;> exact dictGet_dictSet_same _ _ _
  · intro h1 h2
    simp [h1, h2]
  · intro h
    rcases h with h | h <;> simp [h]

/-- p-names are never reported as free parameters: the parameter list of the finished program
keeps the template symbols and drops the registered names -/
theorem C15_pnames_not_parameters (ps : List PEntry) (s : String) :
    let reported := ps.filterMap fun e => match e with
      | .sym p => some p
      | .pname _ => none
    (s ∈ reported ↔ PEntry.sym s ∈ ps) := by
  simp only [List.mem_filterMap]
  constructor
  · rintro ⟨e, he, hs⟩
    cases e with
    | sym p => simp only [Option.some.injEq] at hs; subst hs; exact he
    | pname n => cases hs
  · intro h
    exact ⟨.sym s, h, rfl⟩

/-- hence a tdm program in which no `{}` parameter is written is not a template -/
theorem C15_no_braces_not_template (ps : List PEntry) (h : ∀ e ∈ ps, ∃ n, e = PEntry.pname n) :
    (ps.filterMap fun e => match e with
      | .sym p => some p
      | .pname _ => none) = ([] : List String) := by
  apply List.filterMap_eq_nil_iff.mpr
  intro e he
  obtain ⟨n, rfl⟩ := h e he
  rfl

/-- the serialiser writes a reference to a p-array unquoted (so that it re-loads as a reference),
and only in tdm programs -/
theorem C15_reference_serialised_bare (st : SerState K) (s : String) (hp : isPType s = true) :
    fmtArg true false st (.atom (.pname s)) = .ok ([.txt s], st) ∧
    fmtArg true true st (.atom (.pname s)) = .ok ([.txt s], st) ∧
    fmtArg false false st (.atom (.pname s)) = .ok ([.txt ("\"" ++ s ++ "\"")], st) := by
  simp [fmtArg, isPNameStr, hp]

/-- the tdm variable block writes every array variable with its element type and its rows -/
theorem C15_variable_block_arrays (name : String) (dt : DType) (r c : Nat) (flat : List (SExpr K))
    (hdt : dt ≠ .object) :
    ∃ rows, tdmVarLines [(name, Val.arr dt r c flat)] =
      .ok ([[Frag.txt (dtypeName dt ++ " array " ++ name ++ " =")]] ++ rows) ∧ rows.length = r := by
  have hlen : ∀ (n : Nat) (l : List (SExpr K)), (chunk c n l).length = n := by
    intro n
    induction n with
    | zero => intro l; rfl
    | succ k ih => intro l; simp [chunk, ih]
  refine ⟨(chunk c r flat).map fun row =>
      ([Frag.txt "    "] ++ joinFrags ", " (row.map fun e => match e with
        | .num n => fmtNum n
        | e => [Frag.sym e]) : Line K), ?_, by simp [hlen]⟩
  simp [tdmVarLines, hdt, bind, Except.bind, pure, Except.pure]
  intro a _
  rfl

/-! ### non-vacuity: `type tdm`, `float array p0 = 1, 2`, `Sgate(p0) | 0` -/

def tdmTables : Tables ZS :=
  ⟨[("p0", .arr .float 1 2 [.num (.real ⟨1000⟩), .num (.real ⟨2000⟩)])], [.pname "p0"]⟩

example : evalExpr tdmTables (.var "p0" ⟨5, 6⟩) = .ok (.atom (.pname "p0")) := by decide


/-! ### the whole round trip of a tdm program -/

section roundtrip
variable [Fmt K] [LawfulFmt K]

/-- **C15, round trip.** For every covered program of type tdm (int / float p-arrays and other
variables of any shape, scalars, operations taking p-arrays by name, numbers, booleans, strings and
lists) and every layout of line ends: the parser accepts the serialised tokens, and loading yields
the same metadata, the same operations with the p-arrays still passed BY NAME, every variable with
exactly its data, and no free parameters (so the program is not a template). -/
theorem C15_tdm_program_loads_back (o : SetOrder Int) (fs : FS) (cwd : String) (T0 : Tables K) (p : Program K)
    (sc : Script) (hp : TdmProgramOK p) (h : scriptOfTdm p = .ok sc) :
    (loadStep o fs cwd T0 sc).1 =
      .ok ⟨p.name, p.version, p.target, p.ptype, p.ops, p.vars, [], p.ops.flatMap (·.modes)⟩ ∧
    ∀ ml lay final, parseScript (sc.toks ml lay final) = some sc :=
  load_scriptOfTdm o fs cwd T0 p sc hp h

/-- a p-array argument of a covered operation is written as its bare name and read back as the name -/
theorem C15_reference_roundtrip (vars : List (String × Val K)) (T : Tables K) (hT : TdmTables vars T) (s : String)
    (hs : isPType s = true) (dt : DType) (r c : Nat) (flat : List (SExpr K)) (hmem : (s, Val.arr dt r c flat) ∈ vars) :
    tdmArgOfVal (K := K) (.atom (.pname s)) = .ok (.expr (.var s ⟨0, 0⟩)) ∧
    evalArgVal T (.expr (.var s ⟨0, 0⟩)) = .ok (.atom (.pname s)) := by
  have h1 : tdmArgOfVal (K := K) (.atom (.pname s)) = .ok (.expr (.var s ⟨0, 0⟩)) := by simp [tdmArgOfVal, hs]
  exact ⟨h1, (eval_tdmArg vars T hT (.atom (.pname s)) _ (show TdmArgOK vars (.atom (.pname s)) from ⟨hs, dt, r, c, flat, hmem⟩) h1).1⟩

end roundtrip

def exTdm : Program ZS :=
  { name := "t", version := "1.0", target := (some "TD2", []),
    ptype := (some "tdm", [("temporal_modes", .atom (.num (.int 2)))]),
    ops := [⟨"Sgate", some ([.atom (.num (.real ⟨500⟩)), .atom (.pname "p0")], []), [1]⟩,
            ⟨"MeasureHomodyne", some ([], [("phi", .atom (.pname "p12"))]), [0]⟩],
    vars := [("p0", .arr .float 1 2 [.num (.real ⟨1000⟩), .num (.real ⟨-2500⟩)]),
             ("p12", .arr .int 2 1 [.num (.int 3), .num (.int 4)]),
             ("x", .atom (.num (.real ⟨250⟩)))],
    params := [], modes := [1, 0] }

/-- the model evaluated on a concrete tdm program: serialise, parse, load gives the program back -/
example :
    (match scriptOfTdm exTdm with
     | .ok sc =>
       decide (parseScript (sc.toks ⟨0, 0, 0, 0, [], false⟩ [(1, []), (1, []), (1, []), (1, []), (1, [])] 1) = some sc) &&
       decide ((loadStep SetOrder.id ⟨"", []⟩ "" Tables.empty sc).1 = .ok exTdm)
     | .error _ => false) = true := by
  decide +kernel

end Blackbird
