/-
  C16 — The dependency graph is an order-respecting DAG of the operations.

  Statements are about `graphNodes`, `graphEdges` (the model of `utils.to_DiGraph`) for the list
  `ws` of wire sets of the operations (`ws = p.ops.map opWires`), for programs of any length.
-/
import Blackbird.Lemmas.Graph

namespace Blackbird

/-- operations `i < j` share a wire -/
def Share (ws : List (List Int)) (i j : Nat) : Prop :=
  i < j ∧ j < ws.length ∧ ∃ q, q ∈ ws.getD i [] ∧ q ∈ ws.getD j []

/-- a chain of operations from `i` to `j` that successively share a wire -/
inductive Chain (ws : List (List Int)) : Nat → Nat → Prop
  | one {i j : Nat} : Share ws i j → Chain ws i j
  | cons {i k j : Nat} : Share ws i k → Chain ws k j → Chain ws i j

/-- exactly one node per operation (that depends on at least one wire), each once -/
theorem C16_nodes_exact (ws : List (List Int)) :
    (graphNodes ws).Nodup ∧
    ∀ i, i ∈ graphNodes ws ↔ i < ws.length ∧ ws.getD i [] ≠ [] := by
  constructor
  · unfold graphNodes
    exact List.Nodup.sublist List.filter_sublist List.nodup_range
  · intro i
    unfold graphNodes
    simp [List.mem_filter, List.mem_range]

/-- when every operation acts on at least one mode the nodes are exactly `0, …, n-1` -/
theorem C16_nodes_all (ws : List (List Int)) (h : ∀ w ∈ ws, w ≠ []) :
    graphNodes ws = List.range ws.length := by
  unfold graphNodes
  apply List.filter_eq_self.mpr
  intro i hi
  have hi' : i < ws.length := List.mem_range.mp hi
  have : ws.getD i [] = ws[i] := by simp [List.getD, hi']
  rw [this]
  have := h ws[i] (List.getElem_mem hi')
  cases hw : ws[i] with
  | nil => exact absurd hw this
  | cons a t => simp

/-- every node carries the operation it stands for (name, arguments, modes) -/
theorem C16_node_attrs {K : Type} (p : Program K) (i : Nat) (o : Op K)
    (h : (i, o) ∈ (toDiGraph p).1.nodes) : p.ops[i]? = some o := by
  unfold toDiGraph at h
  simp only [List.mem_filterMap] at h
  obtain ⟨j, _, hj⟩ := h
  cases hop : p.ops[j]? with
  | none => simp [hop] at hj
  | some o' =>
    simp only [hop, Option.map_some, Option.some.injEq, Prod.mk.injEq] at hj
    obtain ⟨rfl, rfl⟩ := hj
    exact hop

/-- every edge points from an earlier to a later operation -/
theorem C16_edge_forward (ws : List (List Int)) {i j : Nat} (h : (i, j) ∈ graphEdges ws) : i < j := by
  obtain ⟨q, _, hq⟩ := mem_graphEdges.mp h
  exact consecutive_lt (wireOps_sorted ws q) hq

/-- hence there is no cycle: nothing is reachable from itself, reachability goes forward -/
theorem C16_reach_forward (ws : List (List Int)) {i j : Nat} (h : Reach (graphEdges ws) i j) : i < j := by
  induction h with
  | edge h => exact C16_edge_forward ws h
  | step h _ ih => exact Nat.lt_trans (C16_edge_forward ws h) ih

theorem C16_acyclic (ws : List (List Int)) (i : Nat) : ¬ Reach (graphEdges ws) i i := by
  intro h
  exact Nat.lt_irrefl _ (C16_reach_forward ws h)

theorem share_of_edge (ws : List (List Int)) {i j : Nat} (h : (i, j) ∈ graphEdges ws) : Share ws i j := by
  obtain ⟨q, _, hq⟩ := mem_graphEdges.mp h
  have hm := consecutive_mem hq
  have hi := mem_wireOps.mp hm.1
  have hj := mem_wireOps.mp hm.2
  exact ⟨consecutive_lt (wireOps_sorted ws q) hq, hj.1, q, hi.2, hj.2⟩

theorem reach_of_share (ws : List (List Int)) {i j : Nat} (h : Share ws i j) : Reach (graphEdges ws) i j := by
  obtain ⟨hij, hj, q, hqi, hqj⟩ := h
  have hi : i < ws.length := Nat.lt_trans hij hj
  have r := reach_consecutive (wireOps_sorted ws q) (mem_wireOps.mpr ⟨hi, hqi⟩) (mem_wireOps.mpr ⟨hj, hqj⟩) hij
  refine r.mono ?_
  intro e he
  exact mem_graphEdges.mpr ⟨q, mem_allWires.mpr ⟨i, hi, hqi⟩, he⟩

/-- operation `j` is reachable from operation `i` exactly when a chain of operations from `i` to
`j` successively share a mode or a measured register -/
theorem C16_reach_iff_chain (ws : List (List Int)) (i j : Nat) :
    Reach (graphEdges ws) i j ↔ Chain ws i j := by
  constructor
  · intro h
    induction h with
    | edge h => exact Chain.one (share_of_edge ws h)
    | step h _ ih => exact Chain.cons (share_of_edge ws h) ih
  · intro h
    induction h with
    | one h => exact reach_of_share ws h
    | cons h _ ih => exact (reach_of_share ws h).trans ih

/-- every topological order of the graph keeps the program's order on every wire: `pos` is the
position of each operation in the order, and the order is topological when every edge goes up -/
theorem C16_topological_keeps_wire_order (ws : List (List Int)) (pos : Nat → Nat)
    (htopo : ∀ a b, (a, b) ∈ graphEdges ws → pos a < pos b)
    (q : Int) (i j : Nat) (hj : j < ws.length) (hij : i < j)
    (hqi : q ∈ ws.getD i []) (hqj : q ∈ ws.getD j []) : pos i < pos j := by
  have r : Reach (graphEdges ws) i j := reach_of_share ws ⟨hij, hj, q, hqi, hqj⟩
  clear hqi hqj hij
  induction r with
  | edge h => exact htopo _ _ h
  | step h _ ih => exact Nat.lt_trans (htopo _ _ h) (ih hj)

/-! ### non-vacuity: a concrete program with a shared mode and a register dependency -/

/-- wires of `MeasureX | 0 ; Sgate | 1 ; Dgate(q0) | 1 ; BSgate | [0, 2]` -/
def exampleWires : List (List Int) := [[0], [1], [1, 0], [0, 2]]

example : graphNodes exampleWires = [0, 1, 2, 3] := by decide
example : (0, 2) ∈ graphEdges exampleWires ∧ (1, 2) ∈ graphEdges exampleWires ∧ (2, 3) ∈ graphEdges exampleWires := by
  decide
theorem exampleChain : Chain exampleWires 1 3 :=
  Chain.cons (k := 2) ⟨by decide, by decide, 1, by decide, by decide⟩
    (Chain.one ⟨by decide, by decide, 0, by decide, by decide⟩)
example : Reach (graphEdges exampleWires) 1 3 := (C16_reach_iff_chain exampleWires 1 3).mpr exampleChain

end Blackbird
