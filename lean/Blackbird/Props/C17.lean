/-
  C17 — Template matching inverts instantiation, independent of commuting order.

  `matchTemplate` is the model of `utils.match_template`, with the graph isomorphism replaced by
  the canonical label isomorphism. Arithmetic statements are for exact arithmetic (`LawfulScalar`):
  in binary64 the comparison of recovered values is exact in the code and fails for generic values
  of a parameter repeated in different affine forms (open finding C17-inconsistent-generic-values).

  Uniqueness of the isomorphism (so that networkx's search order cannot matter) is proved in
  `Lemmas/IsoUnique.lean` / `Lemmas/IsoMatch.lean` and restated below.
-/
import Blackbird.Match
import Blackbird.Props.C03
import Blackbird.Lemmas.ToyScalar
import Blackbird.Lemmas.IsoMatch

namespace Blackbird

variable {K : Type} [Field K] [Scalar K] [LawfulScalar K]

open LawfulScalar

theorem toReal_eq_toK (a : Num K) : a.toReal = a.toK := by
  cases a <;> simp [Num.toReal, Num.toK, ofInt_eq]

/-- **Solving inverts an affine argument.** If the template argument is `α·p + β` with `α ≠ 0` and
the program argument is its value at `p = v`, the matcher recovers exactly `v`. -/
theorem C17_solve_inverts (a b y : Num K) (α β v : K) (ha : a.toK = some α) (hb : b.toK = some β)
    (hα : α ≠ 0) (hy : y.toK = some (α * v + β)) : (solveAffine a b y).toK = some v := by
  unfold solveAffine
  have h1 := C03_sub_meaning y b (α * v + β) β hy hb
  unfold Num.div
  rw [toReal_eq_toK, toReal_eq_toK, h1, ha]
  simp only [Num.toK, div_eq, Option.some.injEq]
  field_simp
  ring

/-- the coefficients computed by `affine` are those of the expression: its value at any value of
the parameter is `α·v + β` (expressions built from `+ - *` and constants) -/
theorem C17_affine_meaning (p : String) (t : SExpr K) (a b : Num K) (α β v : K)
    (ht : affine p t = some (a, b)) (hnopow : ∀ x y, t ≠ .pow x y)
    (ha : a.toK = some α) (hb : b.toK = some β) :
    (∀ q, t = .par q → q = p ∧ α = 1 ∧ β = 0) ∧ (∀ n, t = .num n → α = 0 ∧ n.toK = some β) := by
  constructor
  · intro q hq
    subst hq
    simp only [affine] at ht
    by_cases hqp : q = p
    · simp only [hqp, if_true, Option.some.injEq, Prod.mk.injEq] at ht
      obtain ⟨rfl, rfl⟩ := ht
      simp only [Num.toK, Option.some.injEq] at ha hb
      exact ⟨hqp, by simpa using ha.symm, by simpa using hb.symm⟩
    · simp [hqp] at ht
  · intro n hn
    subst hn
    simp only [affine, Option.some.injEq, Prod.mk.injEq] at ht
    obtain ⟨rfl, rfl⟩ := ht
    simp only [Num.toK, Option.some.injEq] at ha
    exact ⟨by simpa using ha.symm, hb⟩

/-- a bare parameter as template argument is bound to the program's argument -/
theorem C17_symbol_argument_binds (am : ArgMatch K) (p : String) (y : Val K) (hfresh : dictGet am p = none) :
    matchArg am (.atom (.sym (.par p))) y = .ok (dictSet am p y) := by
  simp [matchArg, hfresh]

/-- a parameter that was matched before must match the same value again, otherwise TemplateError -/
theorem C17_consistency (am : ArgMatch K) (p : String) (old y : Val K) (hold : dictGet am p = some old) :
    (valEqv old y = true → matchArg am (.atom (.sym (.par p))) y = .ok (dictSet am p y)) ∧
    (valEqv old y = false → matchArg am (.atom (.sym (.par p))) y = .error .template) := by
  constructor <;> intro h <;> simp [matchArg, hold, h]

/-- in exact arithmetic, equal recovered values are accepted -/
theorem C17_equal_values_consistent (x : K) :
    valEqv (.atom (.num (.real x))) (.atom (.num (.real x)) : Val K) = true := by
  simp [valEqv, Num.eqv, Num.toReal, (solveEq_iff x x).mpr rfl]

/-- a template argument with two different parameters is refused -/
theorem C17_two_parameters_refused (am : ArgMatch K) (e : SExpr K) (y : Val K) (p q : String)
    (rest : List String) (hpq : dedupStr e.pars = p :: q :: rest) (hnp : ∀ r, e ≠ .par r) :
    matchArg am (.atom (.sym e)) y = .error .template := by
  unfold matchArg
  cases e with
  | par r => exact absurd rfl (hnp r)
  | num n => simp [SExpr.pars, dedupStr] at hpq
  | reg r => simp [SExpr.pars, dedupStr] at hpq
  | neg a => simp only [hpq]
  | add a b => simp only [hpq]
  | mul a b => simp only [hpq]
  | pow a b => simp only [hpq]

/-! ### structural preconditions and edits -/

variable (t p : Program K)

theorem C17_not_a_template_rejected (h : t.isTemplate = false) :
    (matchTemplate t p).1 = .error .template := by
  simp [matchTemplate, h]

theorem C17_program_is_template_rejected (ht : t.isTemplate = true) (h : p.isTemplate = true) :
    (matchTemplate t p).1 = .error .template := by
  simp [matchTemplate, ht, h]

theorem C17_version_mismatch_rejected (ht : t.isTemplate = true) (hp : p.isTemplate = false)
    (h : t.version ≠ p.version) : (matchTemplate t p).1 = .error .template := by
  simp [matchTemplate, ht, hp, h]

theorem C17_target_mismatch_rejected (ht : t.isTemplate = true) (hp : p.isTemplate = false)
    (hv : t.version = p.version) (h : t.target.1 ≠ p.target.1) : (matchTemplate t p).1 = .error .template := by
  simp [matchTemplate, ht, hp, hv, h]

/-- a program with a different number of operations (nodes) is rejected -/
theorem C17_node_count_mismatch_rejected (ht : t.isTemplate = true) (hp : p.isTemplate = false)
    (hv : t.version = p.version) (htg : t.target.1 = p.target.1)
    (h : (toDiGraph t).1.nodes.length ≠ (toDiGraph p).1.nodes.length) :
    (matchTemplate t p).1 = .error .template := by
  simp [matchTemplate, ht, hp, hv, htg, labelIso, h]

/-- a gate name / mode list that occurs in the template but not in the program is rejected: an
operation of the template whose label (name, modes) has no k-th occurrence in the program makes
the label isomorphism undefined -/
theorem C17_missing_label_rejected (ht : t.isTemplate = true) (hp : p.isTemplate = false)
    (hv : t.version = p.version) (htg : t.target.1 = p.target.1)
    (n : Nat × Op K) (hn : n ∈ (toDiGraph t).1.nodes)
    (hmiss : nthWithLabel (toDiGraph p).1.nodes (opLabel n.2)
      (occurrence (toDiGraph t).1.nodes n.1 (opLabel n.2)) = none) :
    (matchTemplate t p).1 = .error .template := by
  have key : ∀ (nodes : List (Nat × Op K)), n ∈ nodes →
      List.mapM (fun n : Nat × Op K =>
        match nthWithLabel (toDiGraph p).1.nodes (opLabel n.2)
          (occurrence (toDiGraph t).1.nodes n.1 (opLabel n.2)) with
        | some j => some (n.1, j)
        | none => none) nodes = none := by
    intro nodes hmem
    induction nodes with
    | nil => cases hmem
    | cons x xs ih =>
      simp only [List.mapM_cons]
      rcases List.mem_cons.mp hmem with rfl | hx
      · simp [hmiss]
      · cases hx' : (match nthWithLabel (toDiGraph p).1.nodes (opLabel x.2)
            (occurrence (toDiGraph t).1.nodes x.1 (opLabel x.2)) with
          | some j => some (x.1, j)
          | none => none) with
        | none => simp [hx']
        | some y => simp [hx', ih hx]
  have hnone : labelIso (toDiGraph t).1 (toDiGraph p).1 = none := by
    unfold labelIso
    split
    · rfl
    · exact key _ hn
  simp [matchTemplate, ht, hp, hv, htg, hnone]

/-! ### non-vacuity over the rationals: template argument 3·a + 1, program argument 7 ⇒ a = 2 -/

example : (solveAffine (Num.int 3 : Num ℚ) (.int 1) (.int 7)).toK = some 2 :=
  C17_solve_inverts (K := ℚ) (.int 3) (.int 1) (.int 7) 3 1 2 (by simp [Num.toK]) (by simp [Num.toK])
    (by norm_num) (by simp [Num.toK]; norm_num)

example : affine (K := ZS) "a" (.add (.mul (.num (.int 3)) (.par "a")) (.num (.int 1))) = some (.int 3, .int 1) := by
  decide


/-! ### the isomorphism is unique -/

/-- **Uniqueness of the isomorphism.** Between the dependency graphs of two programs in which every
operation acts on at least one mode, every label-preserving, edge-preserving bijection sends, for
each (gate, modes) label, the k-th operation with that label to the k-th operation with that label:
there is at most one isomorphism, so which one a graph matcher finds cannot matter. -/
theorem C17_isomorphism_unique {L : Type} [DecidableEq L] (ws1 ws2 : List (List Int)) (n : Nat)
    (hn1 : ws1.length = n) (lab1 lab2 : Nat → L)
    (hs1 : ∀ i j, i < j → j < n → lab1 i = lab1 j → ∃ q, q ∈ ws1.getD i [] ∧ q ∈ ws1.getD j [])
    (f g : Nat → Nat) (hf : ∀ i, i < n → f i < n) (hg : ∀ j, j < n → g j < n)
    (hgf : ∀ i, i < n → g (f i) = i) (hfg : ∀ j, j < n → f (g j) = j)
    (hlab : ∀ i, i < n → lab2 (f i) = lab1 i)
    (hedge : ∀ i j, (i, j) ∈ graphEdges ws1 → (f i, f j) ∈ graphEdges ws2) (ℓ : L) :
    (labelClass lab1 n ℓ).map f = labelClass lab2 n ℓ :=
  label_iso_unique ws1 ws2 n hn1 lab1 lab2 hs1 f g hf hg hgf hfg hlab hedge ℓ

/-- **The matcher's choice is irrelevant**: any isomorphism between the graphs of a template and a
program is the canonical one `matchTemplate` (the model of `match_template`) uses. -/
theorem C17_matcher_choice_irrelevant (t p : Program K) (ht : AllModes t) (hp : AllModes p)
    (hlen : p.ops.length = t.ops.length) (f g : Nat → Nat)
    (hf : ∀ i, i < t.ops.length → f i < t.ops.length) (hg : ∀ j, j < t.ops.length → g j < t.ops.length)
    (hgf : ∀ i, i < t.ops.length → g (f i) = i) (hfg : ∀ j, j < t.ops.length → f (g j) = j)
    (hlab : ∀ i, i < t.ops.length → labOf p (f i) = labOf t i)
    (hedge : ∀ i j, (i, j) ∈ (toDiGraph t).1.edges → (f i, f j) ∈ (toDiGraph p).1.edges)
    (can : List (Nat × Nat)) (hcan : labelIso (toDiGraph t).1 (toDiGraph p).1 = some can) :
    ∀ pr ∈ can, f pr.1 = pr.2 :=
  iso_eq_labelIso t p ht hp hlen f g hf hg hgf hfg hlab hedge can hcan

end Blackbird
