/-
  C18 — Comments, blank lines, spacing and line-ending style do not change the program.

  Token level (proved here): the parser reads back exactly the same script from its token
  sequence under EVERY layout of line ends — before the metadata, between the metadata lines,
  before include lines, between items, between the statements of loop bodies (blank lines), at the
  end of the input (final newline present or absent) — hence the loaded program is the same.

  Character level (partial): that spaces and `#` comments produce no token, that LF / CRLF / CR
  all give a NEWLINE token and that a tab and four spaces both give a TAB token are statements about
  the lexer on arbitrary strings; they are checked by comparing the model lexer (a transcription of
  the grammar's lexer rules proved equal to the grammar file, C14) with the shipped lexer on every
  layout variant, and spot-checked below on concrete strings.
-/
import Blackbird.Lemmas.ParseScript
import Blackbird.Load
import Blackbird.Lexer

namespace Blackbird

/-- **Layout is irrelevant to parsing.** -/
theorem C18_layout_irrelevant (s : Script) (hh : s.header.WFp) (hitems : ∀ it ∈ s.items, it.WFp)
    (ml₁ ml₂ : MetaLay) (lay₁ lay₂ : List (Nat × List Nat)) (final₁ final₂ : Nat) :
    parseScript (s.toks ml₁ lay₁ final₁) = parseScript (s.toks ml₂ lay₂ final₂) := by
  rw [parseScript_ok s hh hitems ml₁ lay₁ final₁, parseScript_ok s hh hitems ml₂ lay₂ final₂]

/-- every layout parses, and to the script itself -/
theorem C18_every_layout_parses (s : Script) (hh : s.header.WFp) (hitems : ∀ it ∈ s.items, it.WFp)
    (ml : MetaLay) (lay : List (Nat × List Nat)) (final : Nat) :
    parseScript (s.toks ml lay final) = some s := parseScript_ok s hh hitems ml lay final

/-- hence the loaded program (or the error) is the same under every layout -/
theorem C18_loaded_program_unchanged {K : Type} [Scalar K] (o : SetOrder Int) (fs : FS) (cwd : String)
    (T : Tables K) (s : Script) (hh : s.header.WFp) (hitems : ∀ it ∈ s.items, it.WFp)
    (ml₁ ml₂ : MetaLay) (lay₁ lay₂ : List (Nat × List Nat)) (final₁ final₂ : Nat) :
    (parseScript (s.toks ml₁ lay₁ final₁)).map (fun sc => (loadStep o fs cwd T sc).1) =
    (parseScript (s.toks ml₂ lay₂ final₂)).map (fun sc => (loadStep o fs cwd T sc).1) := by
  rw [C18_layout_irrelevant s hh hitems ml₁ ml₂ lay₁ lay₂ final₁ final₂]

/-- presence or absence of the final newline (and any number of trailing blank lines) -/
theorem C18_final_newline_irrelevant (s : Script) (hh : s.header.WFp) (hitems : ∀ it ∈ s.items, it.WFp)
    (ml : MetaLay) (lay : List (Nat × List Nat)) (k : Nat) :
    parseScript (s.toks ml lay 0) = parseScript (s.toks ml lay k) :=
  C18_layout_irrelevant s hh hitems ml ml lay lay 0 k

/-- the parser's treatment of line ends after a statement: any number of them is consumed, except
the one directly before the TAB of the next loop-body statement -/
theorem C18_statement_line_ends (k : Nat) (rest : List Tok) (h1 : hdKind rest ≠ .NEWLINE) (h2 : hdKind rest ≠ .TAB) :
    eatNL (List.replicate k nl ++ rest) = rest ∧
    ∀ r, eatNL (List.replicate (k + 1) nl ++ tab :: r) = nl :: tab :: r :=
  ⟨eatNL_nls k rest h1 h2, fun r => eatNL_tab k r⟩

/-! ### character level, on concrete strings (tests, not the unbounded claim) -/

def kinds (s : String) : List TokKind := (lex s).map (·.kind)

/-- spaces (1–3), a comment at the line end, a comment line, CRLF and CR line ends, tab vs four
spaces as indentation: same token kinds -/
example : kinds "G(1, 2) | [0, 1]\n" = kinds "G (  1,   2 )  |  [ 0 ,  1 ]   # comment\n" := by decide
example : kinds "G | 0\nH | 1\n" = kinds "G | 0\r\nH | 1\r\n" ∧ kinds "G | 0\nH | 1\n" = kinds "G | 0\rH | 1\r" := by
  decide
example : kinds "for int m in 0:2\n    G | m\n" = kinds "for int m in 0:2\n\tG | m\n" := by decide
example : kinds "G | 0\n# only a comment\nH | 1\n" = kinds "G | 0\n\nH | 1\n" := by decide
/-- four spaces are a TAB token anywhere, five are skipped: why the property bounds runs by three -/
example : kinds "G |    0" = [.NAME, .APPLY, .TAB, .INT, .EOF] ∧ kinds "G |     0" = [.NAME, .APPLY, .INT, .EOF] := by
  decide

/-! ### non-vacuity: a script with metadata options, an include, an array, a statement and a loop -/

def exScript18 : Script :=
  ⟨⟨"prog", "1.0", some ("fock", some ⟨[], [("cutoff", .one (.expr (.num .int "5")))]⟩), none, ["\"inc.xbb\""]⟩,
   [.arr .float ⟨0, 0⟩ ⟨.plain, .NAME, "A", ⟨0, 0⟩⟩ (some ["1", "2"]) (.rows [[.num .float "0.5", .num .int "1"]]),
    .stmt ⟨"G", false, some ⟨[.expr (.idx "A" ⟨0, 0⟩ (.num .int "0"))], []⟩, some .square, [.num .int "0", .num .int "1"], some .square⟩,
    .loop .int "m" (.range "0" "3" none) [⟨"MeasureX", true, none, none, [.var "m" ⟨0, 0⟩], none⟩,
                                          ⟨"Vac", false, none, none, [.var "m" ⟨0, 0⟩], none⟩]]⟩

example : parseScript (exScript18.toks ⟨2, 1, 0, 0, [3], false⟩ [(1, []), (0, []), (2, [4])] 0) = some exScript18 := by
  decide

end Blackbird
