/-
  C18, character level — a `#` comment produces no token and its text is irrelevant.

  These are theorems about the model lexer on ARBITRARY strings (not the concrete examples of
  `Props/C18.lean`): the scanner, standing at a `#`, whatever follows up to the end of the line
  (or of the input), emits nothing and continues at the line end; hence two texts that differ only
  in what a comment says give the same tokens (kinds and texts; only the column recorded for the
  line end moves). That the model lexer's rules are the grammar's is `C14_grammar_is_model_grammar`;
  that the shipped lexer behaves as the model lexer is the LEX correspondence.
-/
import Blackbird.Lemmas.LexComment

namespace Blackbird

/-- **A comment is skipped**: from a `#`, over any characters other than CR / LF, up to the end of
the input or the next CR / LF, the scanner emits no token. -/
theorem C18_comment_is_skipped (fuel : Nat) (c rest : List Char) (hc : ∀ x ∈ c, x ≠ '\n' ∧ x ≠ '\r')
    (hr : rest = [] ∨ ∃ x t, rest = x :: t ∧ (x = '\n' ∨ x = '\r')) (p : Pos) (acc : List Tok) :
    lexGo lexRules (fuel + 1) ('#' :: (c ++ rest)) p acc =
      lexGo lexRules fuel rest ⟨p.line, p.col + 1 + c.length⟩ acc :=
  lexGo_comment fuel c rest hc hr p acc

/-- **The text of a comment is irrelevant**: two comments at the same place, followed by the same
rest of the input, give the same tokens (kind and text). -/
theorem C18_comment_text_irrelevant (fuel : Nat) (c₁ c₂ rest : List Char)
    (h₁ : ∀ x ∈ c₁, x ≠ '\n' ∧ x ≠ '\r') (h₂ : ∀ x ∈ c₂, x ≠ '\n' ∧ x ≠ '\r')
    (hr : rest = [] ∨ ∃ x t, rest = x :: t ∧ (x = '\n' ∨ x = '\r')) (p : Pos) (acc : List Tok) :
    (lexGo lexRules (fuel + 1) ('#' :: (c₁ ++ rest)) p acc).map Tok.kt =
    (lexGo lexRules (fuel + 1) ('#' :: (c₂ ++ rest)) p acc).map Tok.kt := by
  rw [lexGo_comment fuel c₁ rest h₁ hr p acc, lexGo_comment fuel c₂ rest h₂ hr p acc]
  exact lexGo_pos_irrelevant _ _ _ _ _ _ _ rfl

/-- **A comment line equals an empty line**: a comment followed by a line end lexes like the line
end alone. -/
theorem C18_comment_line_is_blank (fuel : Nat) (c rest : List Char) (hc : ∀ x ∈ c, x ≠ '\n' ∧ x ≠ '\r')
    (hr : rest = [] ∨ ∃ x t, rest = x :: t ∧ (x = '\n' ∨ x = '\r')) (p : Pos) (acc : List Tok) :
    (lexGo lexRules (fuel + 1) ('#' :: (c ++ rest)) p acc).map Tok.kt =
    (lexGo lexRules fuel rest p acc).map Tok.kt := by
  rw [lexGo_comment fuel c rest hc hr p acc]
  exact lexGo_pos_irrelevant _ _ _ _ _ _ _ rfl

/-- non-vacuity: a comment with quotes, hashes and non-ASCII text before a CRLF -/
example : (∀ x ∈ "\"q0\" # é | 1".toList, x ≠ '\n' ∧ x ≠ '\r') ∧
    (("\r\nG | 0".toList = []) ∨ ∃ x t, "\r\nG | 0".toList = x :: t ∧ (x = '\n' ∨ x = '\r')) := by
  refine ⟨by decide, Or.inr ⟨'\r', "\nG | 0".toList, by decide, Or.inr rfl⟩⟩

end Blackbird
