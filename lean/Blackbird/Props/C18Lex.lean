/-
  C18, character level — a `#` comment produces no token and its text is irrelevant.

  These are theorems about the model lexer on ARBITRARY strings (not the concrete examples of
  `Props/C18.lean`): the scanner, standing at a `#`, whatever follows up to the end of the line
  (or of the input), emits nothing and continues at the line end; hence two texts that differ only
  in what a comment says give the same tokens (kinds and texts; only the column recorded for the
  line end moves). That the model lexer's rules are the grammar's is `C14_grammar_is_model_grammar`;
  that the shipped lexer behaves as the model lexer is the LEX correspondence.
-/
import Blackbird.Lemmas.LexComment
import Blackbird.Lemmas.LexSpace
import Blackbird.Lemmas.LexNewline
import Blackbird.Lemmas.LexTab
import Blackbird.Lemmas.LexString
import Blackbird.Lemmas.LexWhole

namespace Blackbird

/-- **A comment is skipped**: from a `#`, over any characters other than CR / LF, up to the end of
the input or the next CR / LF, the scanner emits no token. -/
theorem C18_comment_is_skipped (fuel : Nat) (c rest : List Char) (hc : ∀ x ∈ c, x ≠ '\n' ∧ x ≠ '\r')
    (hr : rest = [] ∨ ∃ x t, rest = x :: t ∧ (x = '\n' ∨ x = '\r')) (p : Pos) (acc : List Tok) :
    lexGo lexRules (fuel + 1) ('#' :: (c ++ rest)) p acc =
      lexGo lexRules fuel rest ⟨p.line, p.col + 1 + c.length⟩ acc :=
  lexGo_comment fuel c rest hc hr p acc

/-- **The text of a comment is irrelevant**: two comments at the same place, followed by the same
rest of the input, give the same tokens (kind and text). -/
theorem C18_comment_text_irrelevant (fuel : Nat) (c₁ c₂ rest : List Char)
    (h₁ : ∀ x ∈ c₁, x ≠ '\n' ∧ x ≠ '\r') (h₂ : ∀ x ∈ c₂, x ≠ '\n' ∧ x ≠ '\r')
    (hr : rest = [] ∨ ∃ x t, rest = x :: t ∧ (x = '\n' ∨ x = '\r')) (p : Pos) (acc : List Tok) :
    (lexGo lexRules (fuel + 1) ('#' :: (c₁ ++ rest)) p acc).map Tok.kt =
    (lexGo lexRules (fuel + 1) ('#' :: (c₂ ++ rest)) p acc).map Tok.kt := by
  rw [lexGo_comment fuel c₁ rest h₁ hr p acc, lexGo_comment fuel c₂ rest h₂ hr p acc]
  exact lexGo_pos_irrelevant _ _ _ _ _ _ _ rfl

/-- **A comment line equals an empty line**: a comment followed by a line end lexes like the line
end alone. -/
theorem C18_comment_line_is_blank (fuel : Nat) (c rest : List Char) (hc : ∀ x ∈ c, x ≠ '\n' ∧ x ≠ '\r')
    (hr : rest = [] ∨ ∃ x t, rest = x :: t ∧ (x = '\n' ∨ x = '\r')) (p : Pos) (acc : List Tok) :
    (lexGo lexRules (fuel + 1) ('#' :: (c ++ rest)) p acc).map Tok.kt =
    (lexGo lexRules fuel rest p acc).map Tok.kt := by
  rw [lexGo_comment fuel c rest hc hr p acc]
  exact lexGo_pos_irrelevant _ _ _ _ _ _ _ rfl

/-- **Spaces between tokens are skipped**: a run of `n + 1` spaces that is not exactly four long
(four spaces are the TAB token, the grammar's indentation), followed by the end of the input or by
anything but a space or a tab, emits no token. -/
theorem C18_spaces_are_skipped (fuel n : Nat) (rest : List Char)
    (hr : rest = [] ∨ ∃ x t, rest = x :: t ∧ (x ≠ ' ' ∧ x ≠ '\t')) (hn : n + 1 ≠ 4) (p : Pos) (acc : List Tok) :
    lexGo lexRules (fuel + 1) (' ' :: (List.replicate n ' ' ++ rest)) p acc =
      lexGo lexRules fuel rest ⟨p.line, p.col + (n + 1)⟩ acc :=
  lexGo_spaces fuel n rest hr hn p acc

/-- **The amount of spacing is irrelevant**: one, two, three, five or more spaces before the same
rest of the input give the same tokens as no space at all. -/
theorem C18_spacing_irrelevant (fuel n : Nat) (rest : List Char)
    (hr : rest = [] ∨ ∃ x t, rest = x :: t ∧ (x ≠ ' ' ∧ x ≠ '\t')) (hn : n + 1 ≠ 4) (p : Pos) (acc : List Tok) :
    (lexGo lexRules (fuel + 1) (' ' :: (List.replicate n ' ' ++ rest)) p acc).map Tok.kt =
    (lexGo lexRules fuel rest p acc).map Tok.kt := by
  rw [lexGo_spaces fuel n rest hr hn p acc]
  exact lexGo_pos_irrelevant _ _ _ _ _ _ _ rfl

/-- the excluded length is needed: exactly four spaces ARE a token -/
theorem C18_four_spaces_are_a_tab :
    bestRule lexRules "    0".toList = some (.TAB, false, 4) := by decide +kernel

/-- **LF, CR LF and a lone CR are each exactly one NEWLINE token** (`EolAt s n`: the text `s` starts
with a line end of `n` characters; a CR counts alone only when no LF follows it). -/
theorem C18_line_end_is_one_newline (fuel : Nat) (s : List Char) (n : Nat) (h : EolAt s n) (p : Pos) (acc : List Tok) :
    lexGo lexRules (fuel + 1) s p acc =
      lexGo lexRules fuel (s.drop n) (advance p (s.take n)) (⟨.NEWLINE, String.ofList (s.take n), p⟩ :: acc) :=
  lexGo_eol fuel s n h p acc

/-- **The line-ending style is irrelevant to the token kinds**: the same rest of the input behind an
LF, a CR LF or a lone CR (the rest then not starting with LF) gives the same sequence of kinds. -/
theorem C18_line_end_style_irrelevant (fuel : Nat) (rest : List Char)
    (hr : rest = [] ∨ ∃ y u, rest = y :: u ∧ y ≠ '\n') (p : Pos) (acc : List Tok) :
    (lexGo lexRules (fuel + 1) ('\r' :: '\n' :: rest) p acc).map (·.kind) =
      (lexGo lexRules (fuel + 1) ('\n' :: rest) p acc).map (·.kind) ∧
    (lexGo lexRules (fuel + 1) ('\r' :: rest) p acc).map (·.kind) =
      (lexGo lexRules (fuel + 1) ('\n' :: rest) p acc).map (·.kind) := by
  rw [lexGo_eol fuel _ 2 (.crlf rest), lexGo_eol fuel _ 1 (.lf rest), lexGo_eol fuel _ 1 (.cr rest hr)]
  constructor <;> exact lexGo_kinds_irrelevant _ _ _ _ _ _ _ (by simp)

/-- **A tab and exactly four spaces are the same token**: each, followed by the end of the input or
by anything but a space or a tab, is matched as one TAB (never skipped). -/
theorem C18_tab_or_four_spaces_one_tab (rest : List Char)
    (hr : rest = [] ∨ ∃ x t, rest = x :: t ∧ (x ≠ ' ' ∧ x ≠ '\t')) :
    bestRule lexRules ('\t' :: rest) = some (.TAB, false, 1) ∧
    bestRule lexRules (' ' :: ' ' :: ' ' :: ' ' :: rest) = some (.TAB, false, 4) :=
  ⟨bestRule_tab rest hr, bestRule_four_spaces rest hr⟩

/-- **Inside a string literal nothing is layout**: from an opening quote to the next quote, over any
characters other than a quote or a line end (spaces, tabs, `#`, keywords, non-ASCII text), the scanner
emits ONE STR token carrying exactly that text, and continues behind the closing quote whatever
follows. A `#` inside a string starts no comment; spaces inside a string are not skipped. -/
theorem C18_string_literal_is_one_token (fuel : Nat) (body rest : List Char)
    (hb : ∀ x ∈ body, x ≠ '"' ∧ x ≠ '\n' ∧ x ≠ '\r') (p : Pos) (acc : List Tok) :
    lexGo lexRules (fuel + 1) ('"' :: (body ++ '"' :: rest)) p acc =
      lexGo lexRules fuel rest (advance p ('"' :: (body ++ ['"'])))
        (⟨.STR, String.ofList ('"' :: (body ++ ['"'])), p⟩ :: acc) :=
  lexGo_string fuel body rest hb p acc

example : (lex "G(\"a # b    c\") | 0").map (·.kind) = [.NAME, .LBRAC, .STR, .RBRAC, .APPLY, .INT, .EOF] := by
  decide +kernel

/-- **At the level of `lex` itself** (`lexL cs` is `lex` on the character list `cs`, with the fuel
`lex` passes): a text that begins with a comment, or with a run of spaces that is not exactly four long,
has the tokens of the text behind it. -/
theorem C18_lex_of_text_behind_comment_or_spaces (s : String) :
    lex s = lexL s.toList ∧
    (∀ c rest, (∀ x ∈ c, x ≠ '\n' ∧ x ≠ '\r') → (rest = [] ∨ ∃ x t, rest = x :: t ∧ (x = '\n' ∨ x = '\r')) →
      (lexL ('#' :: (c ++ rest))).map Tok.kt = (lexL rest).map Tok.kt) ∧
    (∀ n rest, (rest = [] ∨ ∃ x t, rest = x :: t ∧ (x ≠ ' ' ∧ x ≠ '\t')) → n + 1 ≠ 4 →
      (lexL (' ' :: (List.replicate n ' ' ++ rest))).map Tok.kt = (lexL rest).map Tok.kt) :=
  ⟨rfl, fun c rest hc hr => lexL_leading_comment c rest hc hr,
   fun n rest hr hn => lexL_leading_spaces n rest hr hn⟩

/-- **Line-ending style at the level of `lex`**: a text that begins with LF, with CR LF or with a lone
CR (the rest then not starting with LF) has the token kinds NEWLINE followed by the kinds of the rest. -/
theorem C18_lex_line_end_styles_same_kinds (rest : List Char) (hr : rest = [] ∨ ∃ y u, rest = y :: u ∧ y ≠ '\n') :
    (lexL ('\n' :: rest)).map (·.kind) = .NEWLINE :: (lexL rest).map (·.kind) ∧
    (lexL ('\r' :: '\n' :: rest)).map (·.kind) = .NEWLINE :: (lexL rest).map (·.kind) ∧
    (lexL ('\r' :: rest)).map (·.kind) = .NEWLINE :: (lexL rest).map (·.kind) :=
  lexL_leading_eol_kinds rest hr

/-- **Scanning is compositional**: what was emitted before a position is a prefix of the result, so
each of the theorems above applies at ANY token boundary of a text, not only at its start. -/
theorem C18_scanner_compositional (fuel : Nat) (s : List Char) (p : Pos) (acc : List Tok) :
    lexGo lexRules fuel s p acc = acc.reverse ++ lexGo lexRules fuel s p [] :=
  lexGo_acc lexRules fuel s p acc

/-- non-vacuity: a comment with quotes, hashes and non-ASCII text before a CRLF -/
example : (∀ x ∈ "\"q0\" # é | 1".toList, x ≠ '\n' ∧ x ≠ '\r') ∧
    (("\r\nG | 0".toList = []) ∨ ∃ x t, "\r\nG | 0".toList = x :: t ∧ (x = '\n' ∨ x = '\r')) := by
  refine ⟨by decide, Or.inr ⟨'\r', "\nG | 0".toList, by decide, Or.inr rfl⟩⟩

end Blackbird
