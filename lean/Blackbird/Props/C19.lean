/-
  C19 — Loading and serialising are deterministic across runs and hash seeds.

  Every place where the code iterates a Python set takes an explicit iteration order
  (`SetOrder`): the mode set of an included program at a call site (`execStmt`, through
  `sortedModes`) and the free symbols of a register transform (`mkRRT`). The serialiser model
  (`serialize`) and `parameters` (compared as a set) take no order at all since the repair
  (braces are inserted by renaming symbols, not by iterating over them).
-/
import Blackbird.Lemmas.Sort
import Blackbird.Props.C08
import Blackbird.Legacy

namespace Blackbird

variable {K : Type} [Scalar K]

theorem stmtEffect_order (o₁ o₂ : SetOrder Int) (incs : Includes K) (T : Tables K) (s : Stmt) :
    stmtEffect o₁ incs T s = stmtEffect o₂ incs T s := by
  unfold stmtEffect
  simp only [sortedModes_order_independent o₁ o₂]

theorem execStmt_order (o₁ o₂ : SetOrder Int) (incs : Includes K) :
    execStmt o₁ incs = execStmt o₂ incs := by
  funext st s
  unfold execStmt
  rw [stmtEffect_order o₁ o₂]

theorem execLoopVals_order (o₁ o₂ : SetOrder Int) (incs : Includes K) (ty : VarType) (x : String)
    (body : List Stmt) (vals : List (Val K)) (st : LState K) :
    execLoopVals o₁ incs ty x body vals st = execLoopVals o₂ incs ty x body vals st := by
  induction vals generalizing st with
  | nil => rfl
  | cons v vs ih =>
    simp only [execLoopVals, execStmt_order o₁ o₂, ih]

theorem execItem_order (o₁ o₂ : SetOrder Int) (tdm : Bool) (incs : Includes K) :
    execItem o₁ tdm incs = execItem o₂ tdm incs := by
  funext st it
  cases it with
  | var ty n init => rfl
  | arr ty pos n shape body => rfl
  | stmt s => simp only [execItem, execStmt_order o₁ o₂]
  | loop ty x h body =>
    simp only [execItem, execLoop, execLoopVals_order o₁ o₂]

theorem runScript_order (o₁ o₂ : SetOrder Int) (fs : FS) (fuel : Nat) :
    (runScript o₁ fs fuel : String → Tables K → Script → _) = runScript o₂ fs fuel := by
  induction fuel with
  | zero => rfl
  | succ n ih =>
    funext cwd T sc
    simp only [runScript, ih, execItem_order o₁ o₂]

/-- the outcome of a load (program content or error) is the same for every iteration order of
the sets involved -/
theorem C19_load_order_independent (o₁ o₂ : SetOrder Int) (fs : FS) (cwd : String) (T : Tables K) (sc : Script) :
    loadStep o₁ fs cwd T sc = loadStep o₂ fs cwd T sc := by
  unfold loadStep
  rw [runScript_order o₁ o₂]

/-- the mode map of an include call site: the sorted mode list is the same for every order -/
theorem C19_include_modes_order_independent (o₁ o₂ : SetOrder Int) (modes : List Int) :
    sortedModes o₁ modes = sortedModes o₂ modes := sortedModes_order_independent o₁ o₂ modes

/-- the documented freedom: two iteration orders may list the registers of a transform
differently, but each listing stays paired with its function — both compute the written formula -/
theorem C19_transform_pairing_order_independent (o₁ o₂ : SetOrder String) (e : SExpr K)
    (ρ : String → Num K) (hp : e.pars = []) :
    (mkRRT o₁ e).func ((mkRRT o₁ e).syms.map ρ) = (mkRRT o₂ e).func ((mkRRT o₂ e).syms.map ρ) := by
  rw [C08_rrt_pairing o₁ e ρ hp, C08_rrt_pairing o₂ e ρ hp]

/-- and they list the same registers -/
theorem C19_transform_registers_order_independent (o₁ o₂ : SetOrder String) (e : SExpr K) (s : String) :
    s ∈ (mkRRT o₁ e).syms ↔ s ∈ (mkRRT o₂ e).syms := by
  rw [(C08_rrt_symbols o₁ e).2, (C08_rrt_symbols o₂ e).2]

/-! ### the pre-repair brace insertion depended on the order -/

theorem C19_legacy_braces_depend_on_order :
    Legacy.insertBraces ["a", "al"] "a + al" ≠ Legacy.insertBraces ["al", "a"] "a + al" := by
  decide

/-- neither order gives the intended `{a} + {al}` -/
theorem C19_legacy_braces_wrong :
    Legacy.insertBraces ["a", "al"] "a + al" ≠ "{a} + {al}" ∧
    Legacy.insertBraces ["al", "a"] "a + al" ≠ "{a} + {al}" := by
  decide

/-- non-vacuity: an include call site whose included program used modes in first-use order 8, 0 -/
example : sortedModes SetOrder.id [8, 0, 8] = [0, 8] ∧
    sortedModes ⟨List.reverse, fun l => List.reverse_perm l⟩ [8, 0, 8] = [0, 8] := by decide

end Blackbird
