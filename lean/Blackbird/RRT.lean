/-
  Blackbird.RRT — mirror of `listener.RegRefTransform.__init__`: the transform's function and
  its register list are derived from ONE list of symbols, `list(expr.free_symbols)`, whose order is
  the iteration order of a Python set.
-/
import Blackbird.Listener
import Blackbird.Graph

namespace Blackbird

variable {K : Type} [Scalar K]

/-- value of a symbolic tree when its symbols are given numbers (what the `lambdify`'d function
computes, with Python-number semantics) -/
def evalSym (env : String → Option (Num K)) : SExpr K → Except Err (Num K)
  | .num n => .ok n
  | .par p => match env p with
              | some v => .ok v
              | none => .error .type
  | .reg r => match env r with
              | some v => .ok v
              | none => .error .type
  | .neg a => do .ok (← evalSym env a).neg
  | .add a b => do
    let x ← evalSym env a
    let y ← evalSym env b
    .ok (x.add y)
  | .mul a b => do
    let x ← evalSym env a
    let y ← evalSym env b
    .ok (x.mul y)
  | .pow a b => do
    let x ← evalSym env a
    let y ← evalSym env b
    Num.pyPow x y

structure RRT (K : Type) where
  /-- `regref_symbols`, in the order the set happened to be iterated -/
  syms : List String
  /-- `regrefs = [int(str(i)[1:]) for i in regref_symbols]` -/
  regrefs : List Int
  /-- `func = lambdify(regref_symbols, expr)`, applied to one value per listed symbol -/
  func : List (Num K) → Except Err (Num K)

def mkRRT (o : SetOrder String) (e : SExpr K) : RRT K :=
  let syms := o.perm (dedupStr e.regs)
  ⟨syms, syms.map regNum, fun vals => evalSym (dictGet (syms.zip vals)) e⟩

end Blackbird
