/-
  Blackbird.Spec — the denotation of a script, written as simply as possible: no accumulators,
  no listener state. A statement denotes its modes and its operation; a loop denotes the
  concatenation of its body's denotations, one per value; items denote the concatenation of their
  denotations, each evaluated in the environment the previous items leave.

  `Props/C02.lean` proves that the listener model (`execItem`, `runScript`) computes exactly this.
-/
import Blackbird.Listener

namespace Blackbird

variable {K : Type} [Scalar K]

/-- what a piece of script contributes: operations, modes, and the environment afterwards -/
structure Contribution (K : Type) where
  ops : List (Op K)
  modes : List Int
  tables : Tables K

def Contribution.nil (T : Tables K) : Contribution K := ⟨[], [], T⟩

/-- `a` then `b` -/
def Contribution.append (a b : Contribution K) : Contribution K :=
  ⟨a.ops ++ b.ops, a.modes ++ b.modes, b.tables⟩

/-- a statement: its operation(s), its modes, parameters registered -/
def denoteStmt (o : SetOrder Int) (incs : Includes K) (T : Tables K) (s : Stmt) : Except Err (Contribution K) := do
  let (modes, ops) ← stmtEffect o incs T s
  .ok ⟨ops, modes, { T with params := T.params ++ stmtPars s }⟩

/-- `g` then `g'`: the second is evaluated in the environment the first leaves, the
contributions are concatenated, an error of either is the error of the whole -/
def seqDen (g g' : Tables K → Except Err (Contribution K)) (T : Tables K) : Except Err (Contribution K) :=
  match g T with
  | .error e => .error e
  | .ok a => match g' a.tables with
             | .error e => .error e
             | .ok b => .ok (a.append b)

/-- statements one after the other -/
def denoteStmts (o : SetOrder Int) (incs : Includes K) : List Stmt → Tables K → Except Err (Contribution K)
  | [] => fun T => .ok (Contribution.nil T)
  | s :: rest => seqDen (fun T => denoteStmt o incs T s) (denoteStmts o incs rest)

/-- converting one loop value to the declared type and binding the loop variable to it -/
def denoteBind (ty : VarType) (x : String) (v : Val K) (T : Tables K) : Except Err (Contribution K) :=
  match castLoopVal ty v with
  | .ok cv => .ok (Contribution.nil { T with vars := dictSet T.vars x cv })
  | .error e => .error e

/-- the body once per value, the variable bound to the converted value -/
def denoteLoopVals (o : SetOrder Int) (incs : Includes K) (ty : VarType) (x : String) (body : List Stmt) :
    List (Val K) → Tables K → Except Err (Contribution K)
  | [] => fun T => .ok (Contribution.nil T)
  | v :: vs => seqDen (seqDen (denoteBind ty x v) (denoteStmts o incs body))
                      (denoteLoopVals o incs ty x body vs)

def denoteLoop (o : SetOrder Int) (incs : Includes K) (T : Tables K) (ty : VarType) (x : String)
    (h : LoopHeader) (body : List Stmt) : Except Err (Contribution K) := do
  let T' : Tables K := { T with params := T.params ++ h.pars.map .sym }
  let raw ← loopVals T h
  let c ← denoteLoopVals o incs ty x body raw T'
  .ok { c with tables := { c.tables with vars := dictErase c.tables.vars x } }

/-- a scalar declaration: no operation, the variable bound to the cast value -/
def denoteVar (T : Tables K) (ty : VarType) (n : VName) (init : ArgVal) : Except Err (Contribution K) :=
  match n.kind with
  | .regref => .error (.syntax .reservedRegref n.text n.pos)
  | .reserved => .error (.syntax .reservedKeyword n.text n.pos)
  | .plain => do
    let v ← evalArgVal T init
    let fv ← castScalar ty v
    .ok (Contribution.nil { vars := dictSet T.vars n.text fv, params := T.params ++ init.pars.map .sym })

def forget {α : Type} : LRes K α → Except Err α
  | .ok a => .ok a
  | .error e => .error e.1

def denoteItem (o : SetOrder Int) (tdm : Bool) (incs : Includes K) (T : Tables K) : Item → Except Err (Contribution K)
  | .var ty n init => denoteVar T ty n init
  | .arr ty pos n shape body =>
    -- arrays: the assembly of `exitArrayvar` is its own specification (C05); no operation
    match forget (arrEffect tdm T ty pos n shape body) with
    | .ok T' => .ok (Contribution.nil T')
    | .error e => .error e
  | .stmt s => denoteStmt o incs T s
  | .loop ty x h body => denoteLoop o incs T ty x h body

def denoteItems (o : SetOrder Int) (tdm : Bool) (incs : Includes K) :
    List Item → Tables K → Except Err (Contribution K)
  | [] => fun T => .ok (Contribution.nil T)
  | it :: rest => seqDen (fun T => denoteItem o tdm incs T it) (denoteItems o tdm incs rest)

/-- the program block of a script evaluated against given includes, starting from empty tables -/
def denoteProgramBlock (o : SetOrder Int) (tdm : Bool) (incs : Includes K) (items : List Item) :
    Except Err (Contribution K) :=
  denoteItems o tdm incs items Tables.empty

end Blackbird
