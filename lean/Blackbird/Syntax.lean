/-
  Blackbird.Syntax — tokens and abstract syntax of Blackbird scripts.

  Mirrors `src/blackbird.g4`: 61 token kinds (numbered as in blackbird.tokens, see
  `TokKind.toNat`) and one AST constructor per parser-rule alternative the listener looks at.
  No imports outside core: this file is linked into the driver executable.
-/
namespace Blackbird

/-- Token kinds in the order of `blackbird.tokens` (type number = index + 1). -/
inductive TokKind
  | PLUS | MINUS | TIMES | DIVIDE | PWR | ASSIGN | FOR | IN
  | INT | FLOAT | COMPLEX | STR | BOOL | SEQUENCE | PI
  | NEWLINE | TAB | SPACE
  | PROGNAME | VERSION | TARGET | PROGTYPE | INCLUDE
  | SQRT | SIN | COS | TAN | ARCSIN | ARCCOS | ARCTAN | SINH | COSH | TANH
  | ARCSINH | ARCCOSH | ARCTANH | EXP | LOG
  | PERIOD | COMMA | COLON | QUOTE | LBRAC | RBRAC | LSQBRAC | RSQBRAC | LBRACE | RBRACE | APPLY
  | TYPE_ARRAY | TYPE_FLOAT | TYPE_COMPLEX | TYPE_INT | TYPE_STR | TYPE_BOOL
  | REGREF | MEASURE | NAME | DEVICE | COMMENT | ANY
  | EOF
  deriving DecidableEq, Repr, Inhabited

def TokKind.all : List TokKind :=
  [.PLUS, .MINUS, .TIMES, .DIVIDE, .PWR, .ASSIGN, .FOR, .IN,
   .INT, .FLOAT, .COMPLEX, .STR, .BOOL, .SEQUENCE, .PI,
   .NEWLINE, .TAB, .SPACE,
   .PROGNAME, .VERSION, .TARGET, .PROGTYPE, .INCLUDE,
   .SQRT, .SIN, .COS, .TAN, .ARCSIN, .ARCCOS, .ARCTAN, .SINH, .COSH, .TANH,
   .ARCSINH, .ARCCOSH, .ARCTANH, .EXP, .LOG,
   .PERIOD, .COMMA, .COLON, .QUOTE, .LBRAC, .RBRAC, .LSQBRAC, .RSQBRAC, .LBRACE, .RBRACE, .APPLY,
   .TYPE_ARRAY, .TYPE_FLOAT, .TYPE_COMPLEX, .TYPE_INT, .TYPE_STR, .TYPE_BOOL,
   .REGREF, .MEASURE, .NAME, .DEVICE, .COMMENT, .ANY]

def TokKind.name : TokKind → String
  | .PLUS => "PLUS" | .MINUS => "MINUS" | .TIMES => "TIMES" | .DIVIDE => "DIVIDE" | .PWR => "PWR"
  | .ASSIGN => "ASSIGN" | .FOR => "FOR" | .IN => "IN" | .INT => "INT" | .FLOAT => "FLOAT"
  | .COMPLEX => "COMPLEX" | .STR => "STR" | .BOOL => "BOOL" | .SEQUENCE => "SEQUENCE" | .PI => "PI"
  | .NEWLINE => "NEWLINE" | .TAB => "TAB" | .SPACE => "SPACE" | .PROGNAME => "PROGNAME"
  | .VERSION => "VERSION" | .TARGET => "TARGET" | .PROGTYPE => "PROGTYPE" | .INCLUDE => "INCLUDE"
  | .SQRT => "SQRT" | .SIN => "SIN" | .COS => "COS" | .TAN => "TAN" | .ARCSIN => "ARCSIN"
  | .ARCCOS => "ARCCOS" | .ARCTAN => "ARCTAN" | .SINH => "SINH" | .COSH => "COSH" | .TANH => "TANH"
  | .ARCSINH => "ARCSINH" | .ARCCOSH => "ARCCOSH" | .ARCTANH => "ARCTANH" | .EXP => "EXP"
  | .LOG => "LOG" | .PERIOD => "PERIOD" | .COMMA => "COMMA" | .COLON => "COLON" | .QUOTE => "QUOTE"
  | .LBRAC => "LBRAC" | .RBRAC => "RBRAC" | .LSQBRAC => "LSQBRAC" | .RSQBRAC => "RSQBRAC"
  | .LBRACE => "LBRACE" | .RBRACE => "RBRACE" | .APPLY => "APPLY" | .TYPE_ARRAY => "TYPE_ARRAY"
  | .TYPE_FLOAT => "TYPE_FLOAT" | .TYPE_COMPLEX => "TYPE_COMPLEX" | .TYPE_INT => "TYPE_INT"
  | .TYPE_STR => "TYPE_STR" | .TYPE_BOOL => "TYPE_BOOL" | .REGREF => "REGREF"
  | .MEASURE => "MEASURE" | .NAME => "NAME" | .DEVICE => "DEVICE" | .COMMENT => "COMMENT"
  | .ANY => "ANY" | .EOF => "EOF"

/-- Source position: 1-based line, 0-based column (ANTLR conventions). -/
structure Pos where
  line : Nat
  col : Nat
  deriving DecidableEq, Repr, Inhabited

structure Tok where
  kind : TokKind
  text : String
  pos : Pos
  deriving DecidableEq, Repr, Inhabited

/-- The fifteen elementary functions of the `function` rule. -/
inductive Fn
  | sin | cos | tan | arcsin | arccos | arctan | sinh | cosh | tanh
  | arcsinh | arccosh | arctanh | sqrt | log | exp
  deriving DecidableEq, Repr, Inhabited

def Fn.tok : Fn → TokKind
  | .sin => .SIN | .cos => .COS | .tan => .TAN | .arcsin => .ARCSIN | .arccos => .ARCCOS
  | .arctan => .ARCTAN | .sinh => .SINH | .cosh => .COSH | .tanh => .TANH
  | .arcsinh => .ARCSINH | .arccosh => .ARCCOSH | .arctanh => .ARCTANH | .sqrt => .SQRT
  | .log => .LOG | .exp => .EXP

def Fn.name : Fn → String
  | .sin => "sin" | .cos => "cos" | .tan => "tan" | .arcsin => "arcsin" | .arccos => "arccos"
  | .arctan => "arctan" | .sinh => "sinh" | .cosh => "cosh" | .tanh => "tanh"
  | .arcsinh => "arcsinh" | .arccosh => "arccosh" | .arctanh => "arctanh" | .sqrt => "sqrt"
  | .log => "log" | .exp => "exp"

def Fn.ofTok : TokKind → Option Fn
  | .SIN => some .sin | .COS => some .cos | .TAN => some .tan | .ARCSIN => some .arcsin
  | .ARCCOS => some .arccos | .ARCTAN => some .arctan | .SINH => some .sinh | .COSH => some .cosh
  | .TANH => some .tanh | .ARCSINH => some .arcsinh | .ARCCOSH => some .arccosh
  | .ARCTANH => some .arctanh | .SQRT => some .sqrt | .LOG => some .log | .EXP => some .exp
  | _ => none

/-- The four alternatives of the `number` rule. The literal text is kept: conversion to a
scalar is the evaluator's business (`auxiliary._number`). -/
inductive NumKind | int | float | complex | pi
  deriving DecidableEq, Repr, Inhabited

def NumKind.tok : NumKind → TokKind
  | .int => .INT | .float => .FLOAT | .complex => .COMPLEX | .pi => .PI

/-- `expression` — one constructor per labelled alternative (`AddLabel` and `MulLabel` are
split by operator, `SignLabel` by sign). -/
inductive Expr
  | num (k : NumKind) (text : String)
  | var (x : String) (pos : Pos)         -- VariableLabel, NAME
  | reg (text : String)                  -- VariableLabel, REGREF (text includes the `q`)
  | idx (x : String) (pos : Pos) (i : Expr)   -- ArrayIdxLabel
  | par (p : String)                     -- ParameterLabel
  | brk (e : Expr)
  | pos (e : Expr)
  | neg (e : Expr)
  | pow (a b : Expr)
  | mul (a b : Expr)
  | div (a b : Expr)
  | add (a b : Expr)
  | sub (a b : Expr)
  | fn (f : Fn) (e : Expr)
  deriving DecidableEq, Repr, Inhabited

/-- `val : nonnumeric | expression`. -/
inductive ArgVal
  | expr (e : Expr)
  | str (raw : String)     -- token text including the quotes
  | bool (b : Bool)
  deriving DecidableEq, Repr, Inhabited

/-- right-hand side of a `kwarg`. `list none` is `[ ]` (no `vallist` child). -/
inductive KwVal
  | one (v : ArgVal)
  | list (vs : List ArgVal)
  deriving DecidableEq, Repr, Inhabited

structure Args where
  pos : List ArgVal
  kw : List (String × KwVal)
  deriving DecidableEq, Repr, Inhabited

inductive VarType | array | float | complex | int | str | bool
  deriving DecidableEq, Repr, Inhabited

def VarType.tok : VarType → TokKind
  | .array => .TYPE_ARRAY | .float => .TYPE_FLOAT | .complex => .TYPE_COMPLEX
  | .int => .TYPE_INT | .str => .TYPE_STR | .bool => .TYPE_BOOL

def VarType.name : VarType → String
  | .array => "array" | .float => "float" | .complex => "complex"
  | .int => "int" | .str => "str" | .bool => "bool"

def VarType.ofTok : TokKind → Option VarType
  | .TYPE_ARRAY => some .array | .TYPE_FLOAT => some .float | .TYPE_COMPLEX => some .complex
  | .TYPE_INT => some .int | .TYPE_STR => some .str | .TYPE_BOOL => some .bool
  | _ => none

/-- `name : invalid | NAME` with `invalid : REGREF | reserved`. -/
inductive NameKind | plain | regref | reserved
  deriving DecidableEq, Repr, Inhabited

structure VName where
  kind : NameKind
  tok : TokKind           -- NAME / REGREF / PROGNAME / VERSION / TARGET / PROGTYPE
  text : String
  pos : Pos
  deriving DecidableEq, Repr, Inhabited

/-- Bracket written around a mode list or loop list: round or square. -/
inductive Brk | round | square
  deriving DecidableEq, Repr, Inhabited

structure Stmt where
  op : String
  isMeasure : Bool
  args : Option Args
  lb : Option Brk
  modes : List Expr
  rb : Option Brk
  deriving DecidableEq, Repr, Inhabited

inductive LoopHeader
  | range (a b : String) (c : Option String)        -- INT token texts
  | list (lb : Option Brk) (vs : List ArgVal) (rb : Option Brk)
  deriving DecidableEq, Repr, Inhabited

/-- body of an `arrayvar`: indented rows, or the bare `parameter` alternative. -/
inductive ArrBody
  | rows (rs : List (List Expr))
  | bare (p : String)
  deriving DecidableEq, Repr, Inhabited

inductive Item
  | var (ty : VarType) (name : VName) (init : ArgVal)
  | arr (ty : VarType) (pos : Pos) (name : VName) (shape : Option (List String)) (body : ArrBody)
  | stmt (s : Stmt)
  | loop (ty : VarType) (x : String) (h : LoopHeader) (body : List Stmt)
  deriving DecidableEq, Repr, Inhabited

structure Header where
  name : String
  version : String
  target : Option (String × Option Args)
  ptype : Option (String × Option Args)
  includes : List String        -- STR token texts (with quotes), in order
  deriving DecidableEq, Repr, Inhabited

structure Script where
  header : Header
  items : List Item
  deriving DecidableEq, Repr, Inhabited

end Blackbird
