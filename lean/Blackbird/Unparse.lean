/-
  Blackbird.Unparse — what the serialiser's text DENOTES, as a syntax tree.

  `Program.lean` mirrors `BlackbirdProgram.serialize` character by character (lines of fragments,
  compared with the real `dumps` on every run). This file gives the same output one level up:
  `scriptOf p` is the `Script` whose printing (`Script.toks`) is the token sequence of that text.
  The tie between the two views is checked on every run (driver command UNPARSE: the token stream
  of `scriptOf p` against the shipped lexer's tokens of the real `dumps(p)`).

  `Props/C01.lean` and `Props/C09.lean` prove that parsing the tokens of `scriptOf p` and walking
  the result with the listener gives `p` back.

  CPython's number formatting is a contract boundary: `class Fmt` names the three facts about it
  the serialiser relies on and `LawfulFmt` states them; nothing else about floats is assumed.
-/
import Blackbird.Program
import Blackbird.Print

namespace Blackbird

/-- CPython's formatting of a real, as far as `serialize` relies on it -/
class Fmt (K : Type) where
  /-- `repr(x)` starts with `-` -/
  signbit : K → Bool
  /-- `x < 0` (what `"+-"[im < 0]` tests; differs from `signbit` at negative zero) -/
  lt0 : K → Bool
  abs : K → K
  /-- `repr(abs(x))`: an unsigned decimal, the text of one FLOAT token -/
  fmtAbs : K → String

variable {K : Type} [Scalar K] [Fmt K]

/-- `"{}{}{}j".format(re, "+-"[im < 0], abs(im))`: the text of one COMPLEX token -/
def cplxText (a b : K) : String :=
  (if Fmt.signbit a then "-" else "") ++ Fmt.fmtAbs (Fmt.abs a) ++
  (if Fmt.lt0 b then "-" else "+") ++ Fmt.fmtAbs (Fmt.abs b) ++ "j"

/-- the three facts about number formatting (`float(repr(x)) == x` and the shape of the text) -/
class LawfulFmt (K : Type) [Scalar K] [Fmt K] : Prop where
  real_pos : ∀ x : K, Fmt.signbit x = false → Scalar.ofDecimal (Fmt.fmtAbs (Fmt.abs x)) = x
  real_neg : ∀ x : K, Fmt.signbit x = true → Scalar.neg (Scalar.ofDecimal (Fmt.fmtAbs (Fmt.abs x))) = x
  cplx_lit : ∀ a b : K, evalNumber (K := K) .complex (cplxText a b) = .cplx a b

def natLit (n : Nat) : Expr := .num .int (toString n)

def exprOfInt (i : Int) : Expr := if i < 0 then .neg (natLit i.natAbs) else natLit i.natAbs

def exprOfReal (x : K) : Expr :=
  if Fmt.signbit x then .neg (.num .float (Fmt.fmtAbs (Fmt.abs x))) else .num .float (Fmt.fmtAbs (Fmt.abs x))

/-- a number as the serialiser writes it in an argument, list, mode list or array row -/
def exprOfNum : Num K → Expr
  | .int i => exprOfInt i
  | .real x => exprOfReal x
  | .cplx a b => .num .complex (cplxText a b)

/-- brackets around anything that is not an atom of the expression grammar -/
def wrap (e : Expr) : Expr := if e.level ≥ 4 then e else .brk e

/-- a symbolic value written out with every compound operand in brackets (SymPy's printer writes
fewer brackets; which ones it writes is a contract boundary, compared on every run) -/
def exprOfS : SExpr K → Expr
  | .num n => exprOfNum n
  | .par p => .par p
  | .reg r => .reg r
  | .neg a => .neg (wrap (exprOfS a))
  | .add a b => .add (wrap (exprOfS a)) (wrap (exprOfS b))
  | .mul a b => .mul (wrap (exprOfS a)) (wrap (exprOfS b))
  | .pow a b => .pow (wrap (exprOfS a)) (wrap (exprOfS b))

def SExpr.isNum : SExpr K → Bool
  | .num _ => true
  | _ => false

/-- a symbolic tree as the evaluator builds them: no operator whose operands are all numbers
(those are computed, not kept) -/
def SExpr.Norm : SExpr K → Bool
  | .num _ => true
  | .par _ => true
  | .reg _ => true
  | .neg a => a.Norm && !a.isNum
  | .add a b => a.Norm && b.Norm && !(a.isNum && b.isNum)
  | .mul a b => a.Norm && b.Norm && !(a.isNum && b.isNum)
  | .pow a b => a.Norm && b.Norm && !(a.isNum && b.isNum)

/-- a scalar, string or boolean inside a list or as an argument -/
def argOfAtom : Atom K → ArgVal
  | .num n => .expr (exprOfNum n)
  | .bool b => .bool b
  | .str s => .str ("\"" ++ s ++ "\"")
  | .pname s => .str ("\"" ++ s ++ "\"")
  | .sym e => .expr (exprOfS e)

def arrName (k : Nat) : String := "A" ++ toString k

def plainName (s : String) : VName := ⟨.plain, .NAME, s, ⟨0, 0⟩⟩

def varTypeOf : DType → VarType
  | .int => .int | .float => .float | .complex => .complex | .object => .float

/-- declared element type: that of the array, or for an array holding free parameters the most
general type among its numeric elements (`objectArrayType`) -/
def declType (dt : DType) (flat : List (SExpr K)) : VarType :=
  match dt with
  | .object =>
    if objectArrayType flat = "complex" then .complex
    else if objectArrayType flat = "int" then .int else .float
  | d => varTypeOf d

/-- an array argument hoisted into a declaration -/
structure ArrDecl (K : Type) where
  name : String
  dt : DType
  r : Nat
  c : Nat
  flat : List (SExpr K)

/-- the hoisted declaration of an array argument (`numpy_to_blackbird`) -/
def ArrDecl.item (d : ArrDecl K) : Item :=
  .arr (declType d.dt d.flat) ⟨0, 0⟩ (plainName d.name) (some [toString d.r, toString d.c])
    (.rows ((chunk d.c d.r d.flat).map fun row => row.map exprOfS))

/-- state of the walk over the operations: next array number, declarations hoisted so far -/
structure UnState (K : Type) where
  next : Nat
  decls : List (ArrDecl K)

/-- one argument value; arrays are hoisted and referred to by name -/
def argOfVal (st : UnState K) : Val K → Except Err (ArgVal × UnState K)
  | .atom a => .ok (argOfAtom a, st)
  | .rrt e => .ok (.expr (exprOfS e), st)
  | .arr dt r c flat =>
    .ok (.expr (.var (arrName st.next) ⟨0, 0⟩), ⟨st.next + 1, st.decls ++ [⟨arrName st.next, dt, r, c, flat⟩]⟩)
  | .list _ => .error (.ood "positional list argument has no syntax")

def kwOfVal (st : UnState K) : Val K → Except Err (KwVal × UnState K)
  | .list vs => .ok (.list (vs.map argOfAtom), st)
  | v => do
    let (a, st) ← argOfVal st v
    .ok (.one a, st)

def posOfVals : List (Val K) → UnState K → Except Err (List ArgVal × UnState K)
  | [], st => .ok ([], st)
  | v :: vs, st => do
    let (a, st) ← argOfVal st v
    let (as, st) ← posOfVals vs st
    .ok (a :: as, st)

def kwOfVals : List (String × Val K) → UnState K → Except Err (List (String × KwVal) × UnState K)
  | [], st => .ok ([], st)
  | (k, v) :: vs, st => do
    let (a, st) ← kwOfVal st v
    let (as, st) ← kwOfVals vs st
    .ok ((k, a) :: as, st)

def modesOf (ms : List Int) : Option Brk × List Expr × Option Brk :=
  match ms with
  | [m] => (none, [exprOfInt m], none)
  | ms => (some .square, ms.map exprOfInt, some .square)

/-- the MEASURE token: `Measure` followed by letters only (anything longer is a NAME) -/
def isMeasureName (s : String) : Bool :=
  "Measure".toList.isPrefixOf s.toList && (s.toList.drop 7).all Char.isAlpha

/-- one operation line -/
def stmtOfOp (st : UnState K) (op : Op K) : Except Err (Stmt × UnState K) :=
  let (lb, modes, rb) := modesOf op.modes
  match op.args with
  | none => .ok (⟨op.name, isMeasureName op.name, none, lb, modes, rb⟩, st)
  | some (pos, kw) => do
    let (a, st) ← posOfVals pos st
    let (k, st) ← kwOfVals kw st
    .ok (⟨op.name, isMeasureName op.name, some ⟨a, k⟩, lb, modes, rb⟩, st)

def stmtsOfOps : List (Op K) → UnState K → Except Err (List Stmt × UnState K)
  | [], st => .ok ([], st)
  | op :: ops, st => do
    let (s, st) ← stmtOfOp st op
    let (ss, st) ← stmtsOfOps ops st
    .ok (s :: ss, st)

/-- option value of a target / type line -/
def optOfVal : Val K → Except Err KwVal
  | .list vs => .ok (.list (vs.map argOfAtom))
  -- a complex scalar option is printed by Python's own `complex.__repr__` (`(1+2j)`, `2j`): not modelled
  | .atom (.num (.cplx _ _)) => .error (.ood "complex-valued option")
  | .atom a => .ok (.one (argOfAtom a))
  | .rrt e => .ok (.one (.expr (exprOfS e)))
  | .arr .. => .error (.ood "array-valued option")

def metaOf (m : Option String × List (String × Val K)) : Except Err (Option (String × Option Args)) :=
  match m.1 with
  | none => .ok none
  | some name =>
    if m.2.isEmpty then .ok (some (name, none))
    else do
      let kw ← m.2.mapM fun kv => do .ok (kv.1, ← optOfVal kv.2)
      .ok (some (name, some ⟨[], kw⟩))

/-- the script a (non-tdm) program is serialised to: metadata, hoisted arrays, operations -/
def scriptOf (p : Program K) : Except Err Script := do
  let tgt ← metaOf p.target
  let typ ← metaOf p.ptype
  let (stmts, st) ← stmtsOfOps p.ops (⟨0, []⟩ : UnState K)
  .ok ⟨⟨p.name, p.version, tgt, typ, []⟩, st.decls.map ArrDecl.item ++ stmts.map .stmt⟩

end Blackbird
