/-
  Blackbird.UnparseTdm — what the serialiser's text denotes for programs of type `tdm`: the
  metadata, then the variable block (every variable with its type; arrays row by row, without a
  shape), then the operations, in which a p-array is referred to by its bare name.
-/
import Blackbird.Unparse

namespace Blackbird

variable {K : Type} [Scalar K] [Fmt K]

def quotedArg (s : String) : ArgVal := .str ("\"" ++ s ++ "\"")

/-- one argument of an operation of a tdm program: a name that looks like a p-array is written
bare (whether it was a reference or a string: open finding C15-string-equal-to-pname) -/
def tdmArgOfVal : Val K → Except Err ArgVal
  | .atom (.pname s) => .ok (if isPType s then .expr (.var s ⟨0, 0⟩) else quotedArg s)
  | .atom (.str s) => .ok (if isPType s then .expr (.var s ⟨0, 0⟩) else quotedArg s)
  | .atom (.num n) => .ok (.expr (exprOfNum n))
  | .atom (.bool b) => .ok (.bool b)
  | .atom (.sym e) => .ok (.expr (exprOfS e))
  | .rrt e => .ok (.expr (exprOfS e))
  | .arr .. => .error (.ood "array argument hoisted in a tdm program")
  | .list _ => .error (.ood "positional list argument has no syntax")

def tdmKwOfVal : Val K → Except Err KwVal
  | .list vs => .ok (.list (vs.map argOfAtom))
  | v => do .ok (.one (← tdmArgOfVal v))

def tdmStmtOfOp (op : Op K) : Except Err Stmt :=
  let (lb, modes, rb) := modesOf op.modes
  match op.args with
  | none => .ok ⟨op.name, isMeasureName op.name, none, lb, modes, rb⟩
  | some (pos, kw) => do
    let a ← pos.mapM tdmArgOfVal
    let k ← kw.mapM fun kv => do .ok (kv.1, ← tdmKwOfVal kv.2)
    .ok ⟨op.name, isMeasureName op.name, some ⟨a, k⟩, lb, modes, rb⟩

/-- one line (or block) of the variable section -/
def tdmVarItem (kv : String × Val K) : Except Err Item :=
  match kv.2 with
  | .arr dt r c flat =>
    match dt with
    | .object => .error .key
    -- elements of a complex array are printed by Python's `complex.__repr__`: not modelled
    | .complex => .error (.ood "complex array in the tdm variable block")
    | dt => .ok (.arr (varTypeOf dt) ⟨0, 0⟩ (plainName kv.1) none
                  (.rows ((chunk c r flat).map fun row => row.map exprOfS)))
  | .atom (.num n) =>
    let ty : VarType := match n with | .int _ => .int | .real _ => .float | .cplx _ _ => .complex
    .ok (.var ty (plainName kv.1) (.expr (exprOfNum n)))
  | .atom (.bool b) => .ok (.var .bool (plainName kv.1) (.bool b))
  | .atom (.str s) => .ok (.var .str (plainName kv.1) (quotedArg s))
  | .atom (.sym _) => .error .key
  | _ => .error (.ood "tdm variable of unsupported kind")

/-- the script a program of type tdm is serialised to -/
def scriptOfTdm (p : Program K) : Except Err Script := do
  let tgt ← metaOf p.target
  let typ ← metaOf p.ptype
  let vars ← p.vars.mapM tdmVarItem
  let stmts ← p.ops.mapM tdmStmtOfOp
  .ok ⟨⟨p.name, p.version, tgt, typ, []⟩, vars ++ stmts.map .stmt⟩

end Blackbird
