/-
  Blackbird.Unroll — textual substitution of a variable by an expression (the loop variable by
  the literal of its value), and the unrolling of a loop body.
-/
import Blackbird.Syntax

namespace Blackbird

/-- replace every use of the variable `x` by `lit` -/
def substE (x : String) (lit : Expr) : Expr → Expr
  | .num k t => .num k t
  | .var y pos => if y = x then lit else .var y pos
  | .reg t => .reg t
  | .idx y pos i => .idx y pos (substE x lit i)
  | .par p => .par p
  | .brk e => .brk (substE x lit e)
  | .pos e => .pos (substE x lit e)
  | .neg e => .neg (substE x lit e)
  | .pow a b => .pow (substE x lit a) (substE x lit b)
  | .mul a b => .mul (substE x lit a) (substE x lit b)
  | .div a b => .div (substE x lit a) (substE x lit b)
  | .add a b => .add (substE x lit a) (substE x lit b)
  | .sub a b => .sub (substE x lit a) (substE x lit b)
  | .fn f e => .fn f (substE x lit e)

/-- the variable `x` is used as an array name in an index expression -/
def indexes (x : String) : Expr → Bool
  | .idx y _ i => y = x || indexes x i
  | .brk e => indexes x e
  | .pos e => indexes x e
  | .neg e => indexes x e
  | .pow a b => indexes x a || indexes x b
  | .mul a b => indexes x a || indexes x b
  | .div a b => indexes x a || indexes x b
  | .add a b => indexes x a || indexes x b
  | .sub a b => indexes x a || indexes x b
  | .fn _ e => indexes x e
  | _ => false

def substArgVal (x : String) (lit : Expr) : ArgVal → ArgVal
  | .expr e => .expr (substE x lit e)
  | v => v

def substKwVal (x : String) (lit : Expr) : KwVal → KwVal
  | .one v => .one (substArgVal x lit v)
  | .list vs => .list (vs.map (substArgVal x lit))

def substArgs (x : String) (lit : Expr) (a : Args) : Args :=
  ⟨a.pos.map (substArgVal x lit), a.kw.map fun kv => (kv.1, substKwVal x lit kv.2)⟩

def substStmt (x : String) (lit : Expr) (s : Stmt) : Stmt :=
  { s with args := s.args.map (substArgs x lit), modes := s.modes.map (substE x lit) }

def argValIndexes (x : String) : ArgVal → Bool
  | .expr e => indexes x e
  | _ => false

def kwValIndexes (x : String) : KwVal → Bool
  | .one v => argValIndexes x v
  | .list vs => vs.any (argValIndexes x)

def stmtIndexes (x : String) (s : Stmt) : Bool :=
  s.modes.any (indexes x) ||
  match s.args with
  | none => false
  | some a => a.pos.any (argValIndexes x) || a.kw.any (fun kv => kwValIndexes x kv.2)

/-- the body of a loop written once per value, the loop variable replaced by that value's literal -/
def unrollBody (x : String) (lits : List Expr) (body : List Stmt) : List Stmt :=
  lits.flatMap fun lit => body.map (substStmt x lit)

end Blackbird
