/-
  Blackbird.Value — scalars, numbers, symbolic expressions, values, programs.

  Scalars are abstract: `class Scalar K` lists the primitive operations the code delegates to
  NumPy / CPython and assumes NO laws about them, so every structural theorem holds for IEEE
  doubles whatever libm does. The executable instance (`Blackbird.FloatScalar`) is binary64.
-/
import Blackbird.Syntax

namespace Blackbird

class Scalar (K : Type) where
  ofInt : Int → K
  /-- `float(text)` for a text matching `[+-]? REAL` -/
  ofDecimal : String → K
  pi : K
  add : K → K → K
  mul : K → K → K
  neg : K → K
  /-- `x ** -1` -/
  inv : K → K
  /-- real division (used where the code divides directly, e.g. SymPy's `solve`) -/
  div : K → K → K
  /-- real power with a real exponent -/
  pow : K → K → K
  /-- real power with an integer exponent (`np.power(float64, int64)`) -/
  powInt : K → Int → K
  fn : Fn → K → K
  /-- complex reciprocal and power -/
  cinv : K × K → K × K
  cpow : K × K → K × K → K × K
  /-- complex elementary functions; `none` = not modelled (outside every property's domain) -/
  cfn : Fn → K × K → Option (K × K)
  /-- `int(x)`: truncation toward zero, `none` for nan / inf -/
  trunc : K → Option Int
  isZero : K → Bool
  beq : K → K → Bool
  /-- the comparison `!=` applied by `match_template` to values recovered by SymPy's solver.
  In exact arithmetic this is equality; the binary64 instance uses a relative tolerance because
  the solver's internal arithmetic (a contract boundary) is not IEEE double arithmetic. -/
  solveEq : K → K → Bool
  finite : K → Bool

/-- A number as NumPy / Python see it: the promotion lattice is int < real < complex. -/
inductive Num (K : Type)
  | int (i : Int)
  | real (x : K)
  | cplx (re im : K)
  deriving Repr, Inhabited, DecidableEq

/-- Errors, reduced to what the properties distinguish. -/
inductive SynKind
  | grammar | undefined | reservedRegref | reservedKeyword | arrayType | noShape | shapeMismatch | ragged
  deriving DecidableEq, Repr, Inhabited

inductive Err
  | syntax (k : SynKind) (ident : String) (pos : Pos)
  | type | value | index | key | attribute | template | file
  /-- input outside what the model covers (never produced inside a property's domain) -/
  | ood (why : String)
  deriving DecidableEq, Repr, Inhabited

/-- Symbolic values (what SymPy holds): the expression tree as written, over template
parameters and measured registers. -/
inductive SExpr (K : Type)
  | num (n : Num K)
  | par (p : String)
  | reg (r : String)      -- symbol text, e.g. "q0"
  | neg (a : SExpr K)
  | add (a b : SExpr K)
  | mul (a b : SExpr K)
  | pow (a b : SExpr K)
  deriving Repr, Inhabited, DecidableEq

inductive DType | int | float | complex | object
  deriving DecidableEq, Repr, Inhabited

/-- scalar-like values: what an expression, literal or list element can be -/
inductive Atom (K : Type)
  | num (n : Num K)
  | bool (b : Bool)
  | str (s : String)
  | sym (e : SExpr K)
  | pname (s : String)     -- tdm p-array passed by name
  deriving Repr, Inhabited, DecidableEq

inductive Val (K : Type)
  | atom (a : Atom K)
  /-- two-dimensional array, row-major -/
  | arr (dt : DType) (rows cols : Nat) (flat : List (SExpr K))
  | list (vs : List (Atom K))
  /-- register transform: expression over registers -/
  | rrt (e : SExpr K)
  deriving Repr, Inhabited, DecidableEq

structure Op (K : Type) where
  name : String
  args : Option (List (Val K) × List (String × Val K))
  modes : List Int
  deriving Repr, Inhabited, DecidableEq

structure Program (K : Type) where
  name : String
  version : String
  target : Option String × List (String × Val K)
  ptype : Option String × List (String × Val K)
  ops : List (Op K)
  vars : List (String × Val K)
  params : List String
  modes : List Int
  deriving Repr, Inhabited, DecidableEq

/-- insertion-ordered dictionary update (Python `dict.__setitem__`) -/
def dictSet {α} (d : List (String × α)) (k : String) (v : α) : List (String × α) :=
  match d with
  | [] => [(k, v)]
  | (k', v') :: rest => if k' = k then (k, v) :: rest else (k', v') :: dictSet rest k v

def dictGet {α} (d : List (String × α)) (k : String) : Option α :=
  match d with
  | [] => none
  | (k', v) :: rest => if k' = k then some v else dictGet rest k

def dictErase {α} (d : List (String × α)) (k : String) : List (String × α) :=
  d.filter fun kv => kv.1 ≠ k

namespace Num
variable {K : Type} [Scalar K]

def toReal : Num K → Option K
  | int i => some (Scalar.ofInt i)
  | real x => some x
  | cplx _ _ => none

def toCplx : Num K → K × K
  | int i => (Scalar.ofInt i, Scalar.ofInt 0)
  | real x => (x, Scalar.ofInt 0)
  | cplx a b => (a, b)

def isCplx : Num K → Bool
  | cplx _ _ => true
  | _ => false

def neg : Num K → Num K
  | int i => int (-i)
  | real x => real (Scalar.neg x)
  | cplx a b => cplx (Scalar.neg a) (Scalar.neg b)

def add : Num K → Num K → Num K
  | int a, int b => int (a + b)
  | cplx a b, y => let (c, d) := y.toCplx; cplx (Scalar.add a c) (Scalar.add b d)
  | x, cplx c d => let (a, b) := x.toCplx; cplx (Scalar.add a c) (Scalar.add b d)
  | int a, real y => real (Scalar.add (Scalar.ofInt a) y)
  | real x, int b => real (Scalar.add x (Scalar.ofInt b))
  | real x, real y => real (Scalar.add x y)

def cmul (x y : K × K) : K × K :=
  (Scalar.add (Scalar.mul x.1 y.1) (Scalar.neg (Scalar.mul x.2 y.2)),
   Scalar.add (Scalar.mul x.1 y.2) (Scalar.mul x.2 y.1))

def mul : Num K → Num K → Num K
  | int a, int b => int (a * b)
  | cplx a b, y => let r := cmul (a, b) y.toCplx; cplx r.1 r.2
  | x, cplx c d => let r := cmul x.toCplx (c, d); cplx r.1 r.2
  | int a, real y => real (Scalar.mul (Scalar.ofInt a) y)
  | real x, int b => real (Scalar.mul x (Scalar.ofInt b))
  | real x, real y => real (Scalar.mul x y)

/-- `np.power(b, -1)` after the int→float cast of the divisor -/
def recip : Num K → Num K
  | int i => real (Scalar.inv (Scalar.ofInt i))
  | real x => real (Scalar.inv x)
  | cplx a b => let r := Scalar.cinv (a, b); cplx r.1 r.2

/-- real quotient `a / b` of two non-complex numbers (complex operands: via the reciprocal) -/
def div (a b : Num K) : Num K :=
  match a.toReal, b.toReal with
  | some x, some y => real (Scalar.div x y)
  | _, _ => a.mul b.recip

/-- `np.power(a, b)`; integer to a negative integer power is refused by NumPy -/
def pow : Num K → Num K → Except Err (Num K)
  | int a, int b => if b < 0 then .error .value else .ok (int (a ^ b.toNat))
  | cplx a b, y => let r := Scalar.cpow (a, b) y.toCplx; .ok (cplx r.1 r.2)
  | x, cplx c d => let r := Scalar.cpow x.toCplx (c, d); .ok (cplx r.1 r.2)
  | real x, int n => .ok (real (Scalar.powInt x n))
  | int a, real y => .ok (real (Scalar.pow (Scalar.ofInt a) y))
  | real x, real y => .ok (real (Scalar.pow x y))

def applyFn (f : Fn) : Num K → Except Err (Num K)
  | int i => .ok (real (Scalar.fn f (Scalar.ofInt i)))
  | real x => .ok (real (Scalar.fn f x))
  | cplx a b => match Scalar.cfn f (a, b) with
                | some r => .ok (cplx r.1 r.2)
                | none => .error (.ood "complex function")

def finite : Num K → Bool
  | int _ => true
  | real x => Scalar.finite x
  | cplx a b => Scalar.finite a && Scalar.finite b

end Num

namespace SExpr
variable {K : Type}

/-- template parameters occurring in the tree, in left-to-right order (with repeats) -/
def pars : SExpr K → List String
  | num _ => []
  | par p => [p]
  | reg _ => []
  | neg a => a.pars
  | add a b => a.pars ++ b.pars
  | mul a b => a.pars ++ b.pars
  | pow a b => a.pars ++ b.pars

/-- register symbols occurring in the tree, in left-to-right order (with repeats) -/
def regs : SExpr K → List String
  | num _ => []
  | par _ => []
  | reg r => [r]
  | neg a => a.regs
  | add a b => a.regs ++ b.regs
  | mul a b => a.regs ++ b.regs
  | pow a b => a.regs ++ b.regs

end SExpr

end Blackbird
