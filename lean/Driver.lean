/-
  Line-protocol driver: one command per input line, one result per output line.
  Fields are TAB-separated; every string field is hex-encoded UTF-8 ("-" = empty).
-/
import Blackbird.Decode
import Blackbird.Load
import Blackbird.ErrorListener
import Blackbird.Unparse
import Blackbird.Instantiate
import Blackbird.ATN
import Blackbird.UnparseTdm

open Blackbird

def decodeFields (fs : List String) : Option (List String) := fs.mapM unhexStr

def pairs : List String → List (String × String)
  | a :: b :: rest => (a, b) :: pairs rest
  | _ => []

def encLoadResult (r : Except Err (Program Float)) : String :=
  match r with
  | .ok p => encProgram p
  | .error e => encErr e

def withProgram (h : String) (k : Program Float → String) : String :=
  match sxParse h with
  | none => "bad-sx"
  | some x => match decProgram x with
              | none => "bad-program"
              | some p => k p

def encDumps (p : Program Float) : String :=
  match serialize p with
  | .ok ls => encLines ls
  | .error e => encErr e

/-- binary64 formatting for the UNPARSE command: a placeholder carrying the bit pattern; the harness
compares it with the number CPython printed (`float(text)`), so no decimal printing is modelled -/
instance : Fmt Float where
  signbit x := x.toBits >>> 63 == 1
  lt0 x := x < 0
  abs x := x.abs
  fmtAbs x := "f" ++ toString x.toBits

def isNameText (s : String) : Bool :=
  match s.toList with
  | c :: cs => c.isAlpha && cs.all (fun d => d.isAlphanum || d == '_')
  | [] => false

/-- tokens of the script the serialiser model writes, one line end before every item -/
def encUnparse (p : Program Float) : String :=
  match (if p.ptype.1 = some "tdm" then scriptOfTdm p else scriptOf p) with
  | .ok sc =>
    let dev := match sc.header.target with
      | some (n, _) => !isNameText n
      | none => false
    let lay := List.replicate sc.items.length ((1 : Nat), ([] : List Nat))
    " ".intercalate ((sc.toks ⟨0, 0, 0, 0, [], dev⟩ lay 1).map encTok)
  | .error e => encErr e

/-- SUBSTP: the script with the parameter values substituted (`substPScript`, the object of the
script-level C04 theorems), as tokens; prefixed by whether the template is in the fragment the
theorem covers -/
def encSubstP (text : String) (kwargs : List (String × Val Float)) : String :=
  match parseText text with
  | none => "(err syntax)"
  | some sc =>
    let ρ : String → Option (Num Float) := fun p =>
      match dictGet kwargs p with
      | some (.atom (.num n)) => some n
      | _ => none
    let sc' := substPScript ρ sc
    let dev := match sc'.header.target with
      | some (n, _) => !isNameText n
      | none => false
    let lay := List.replicate sc'.items.length ((1 : Nat), ([] : List Nat))
    let covered := sc.tplOK && sc.items.all fun it => it.parsL.all fun p => (ρ p).isSome
    (if covered then "covered " else "outside ") ++
      " ".intercalate ((sc'.toks ⟨0, 0, 0, 0, [], dev⟩ lay 1).map encTok)

/-- SUBSTR: the script with register values written into its arguments (`substRScript`), as tokens -/
def encSubstR (text : String) (kwargs : List (String × Val Float)) : String :=
  match parseText text with
  | none => "(err syntax)"
  | some sc =>
    let ρ : String → Option (Num Float) := fun p =>
      match dictGet kwargs p with
      | some (.atom (.num n)) => some n
      | _ => none
    let sc' := substRScript ρ sc
    let dev := match sc'.header.target with
      | some (n, _) => !isNameText n
      | none => false
    let lay := List.replicate sc'.items.length ((1 : Nat), ([] : List Nat))
    " ".intercalate ((sc'.toks ⟨0, 0, 0, 0, [], dev⟩ lay 1).map encTok)

/-- ATNDEC: the decoded form of a serialised ATN (space-separated numbers), for comparison with what ANTLR's own
`ATNDeserializer` makes of the same numbers -/
def encATN (data : String) : String :=
  let nums := (data.splitOn " ").filterMap String.toNat?
  match Blackbird.ATN.decode nums with
  | none => "undecodable"
  | some A =>
    let st := " ".intercalate (A.states.map fun s => s!"{s.stype}:{s.rule}")
    let ed := " ".intercalate (A.edges.map fun e => s!"{e.src}:{e.trg}:{e.ttype}:{e.a1}:{e.a2}:{e.a3}")
    let sets := " ".intercalate (A.sets.map fun rs => ",".intercalate (rs.map fun p => s!"{p.1}-{p.2}"))
    let nat (l : List Nat) := " ".intercalate (l.map toString)
    s!"gt={A.grammarType};max={A.maxTok};states={st};edges={ed};sets={sets};decisions={nat A.decisions};rulestart={nat A.ruleStart};ruletok={nat A.ruleTok};modes={nat A.modes};rest={A.rest.length}"

/-- a history of `loads` calls in one process: tables threaded from call to call -/
def runHistory (fs : FS) : List String → Tables Float → List String → List String
  | [], _, acc => acc.reverse
  | t :: ts, T, acc =>
    let (r, T') := loadsText fs T t
    runHistory fs ts T' (encLoadResult r :: acc)

def decCls : String → CtxClass
  | "start" => .start | "metadatablock" => .metadatablock | "expressionvar" => .expressionvar
  | "arrayvar" => .arrayvar | "statement" => .statement | _ => .other

/-- node: `cls:nvaom` with one 0/1 flag each for name, vartype, assign, operation, measure -/
def decNode (s : String) : CtxNode :=
  match s.splitOn ":" with
  | [c, f] =>
    let fl : List Bool := f.toList.map (fun c => c == '1')
    ⟨decCls c, fl.getD 0 false, fl.getD 1 false, fl.getD 2 false, fl.getD 3 false, fl.getD 4 false⟩
  | _ => ⟨.other, false, false, false, false, false⟩

def encErrMsg : ErrMsg → String
  | .invalidSymbol => "invalidSymbol" | .missingAssignment => "missingAssignment"
  | .incompleteValue => "incompleteValue" | .invalidInVariable => "invalidInVariable"
  | .arrayNeedsNewline => "arrayNeedsNewline" | .invalidInArray => "invalidInArray"
  | .missingModes => "missingModes" | .modesNotSeparated => "modesNotSeparated"
  | .missingName => "missingName" | .missingVersion => "missingVersion" | .generic => "generic"

def handleErrl (args : List String) : String :=
  match args with
  | [ctx, anc, flags, line, col] =>
    let fl : List Bool := flags.toList.map (fun c => c == '1')
    let i : ErrInput := ⟨decNode ctx, (anc.splitOn ";").filter (· ≠ "") |>.map decNode,
      fl.getD 0 false, fl.getD 1 false, fl.getD 2 false, fl.getD 3 false, fl.getD 4 false, fl.getD 5 false,
      fl.getD 6 false, line.toNat?.getD 0, col.toNat?.getD 0⟩
    let inv := if CtxInv i then "inv" else "noinv"
    match syntaxError i with
    | .syntaxErr l c m => s!"syntax {l} {c} {encErrMsg m} {inv}"
    | .attributeError => s!"attribute {inv}"
    | .unboundLocal => s!"unbound {inv}"
  | _ => "bad-op"

def handle (line : String) : String :=
  match line.splitOn "\t" with
  | cmd :: fields =>
    match decodeFields fields with
    | none => "bad-hex"
    | some args =>
      match cmd, args with
      | "LEX", [text] => " ".intercalate ((lex text).map encTok)
      | "SYNTAX", [text] => if (parseText text).isSome then "ok" else "err"
      | "LOADS", text :: procCwd :: files =>
        encLoadResult (loadsText (mkFS procCwd (pairs files)) Tables.empty text).1
      | "LOAD", filename :: procCwd :: files =>
        encLoadResult (loadFile (mkFS procCwd (pairs files)) Tables.empty filename).1
      | "LDUMPS", text :: procCwd :: files =>
        match (loadsText (mkFS procCwd (pairs files)) (Tables.empty : Tables Float) text).1 with
        | .ok p => encDumps p
        | .error e => encErr e
      | "DUMPS", [prog] => withProgram prog encDumps
      | "UNPARSE", [prog] => withProgram prog encUnparse
      | "CALL", [prog, kw] =>
        withProgram prog fun p =>
          match sxParse kw with
          | none => "bad-sx"
          | some k => match decKw k with
                      | none => "bad-kw"
                      | some kwargs => encLoadResult (instantiate p kwargs)
      | "SUBSTP", [text, kw] =>
        match sxParse kw with
        | none => "bad-sx"
        | some k => match decKw k with
                    | none => "bad-kw"
                    | some kwargs => encSubstP text kwargs
      | "SUBSTR", [text, kw] =>
        match sxParse kw with
        | none => "bad-sx"
        | some k => match decKw k with
                    | none => "bad-kw"
                    | some kwargs => encSubstR text kwargs
      | "ATNDEC", [data] => encATN data
      | "GRAPH", [prog] =>
        withProgram prog fun p =>
          let (g, p') := toDiGraph p
          encGraph g ++ " " ++ encProgram p'
      | "MATCH", [tmpl, prog] =>
        withProgram tmpl fun t => withProgram prog fun p =>
          match (matchTemplate t p).1 with
          | .ok am => encKw am
          | .error e => encErr e
      | "ERRL", rest => handleErrl rest
      | "HIST", procCwd :: texts =>
        " ;; ".intercalate (runHistory (mkFS procCwd []) texts Tables.empty [])
      | _, _ => "bad-op"
  | [] => "bad-op"

partial def loop (h : IO.FS.Stream) (out : IO.FS.Stream) : IO Unit := do
  let line ← h.getLine
  if line.isEmpty then return ()
  let line := if line.endsWith "\n" then (line.dropEnd 1).toString else line
  out.putStrLn (handle line)
  loop h out

def main : IO Unit := do
  let out ← IO.getStdout
  loop (← IO.getStdin) out
  out.flush
