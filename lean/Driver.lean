/-
  Line-protocol driver: one command per input line, one result per output line.
  Fields are TAB-separated; every string field is hex-encoded UTF-8 ("-" = empty).
-/
import Blackbird.Encode
import Blackbird.Load

open Blackbird

def decodeFields (fs : List String) : Option (List String) := fs.mapM unhexStr

def pairs : List String → List (String × String)
  | a :: b :: rest => (a, b) :: pairs rest
  | _ => []

def encLoadResult (r : Except Err (Program Float)) : String :=
  match r with
  | .ok p => encProgram p
  | .error e => encErr e

def handle (line : String) : String :=
  match line.splitOn "\t" with
  | cmd :: fields =>
    match decodeFields fields with
    | none => "bad-hex"
    | some args =>
      match cmd, args with
      | "LEX", [text] => " ".intercalate ((lex text).map encTok)
      | "SYNTAX", [text] => if (parseText text).isSome then "ok" else "err"
      | "LOADS", text :: procCwd :: files =>
        encLoadResult (loadsText (mkFS procCwd (pairs files)) Tables.empty text).1
      | "LOAD", filename :: procCwd :: files =>
        encLoadResult (loadFile (mkFS procCwd (pairs files)) Tables.empty filename).1
      | _, _ => "bad-op"
  | [] => "bad-op"

partial def loop (h : IO.FS.Stream) (out : IO.FS.Stream) : IO Unit := do
  let line ← h.getLine
  if line.isEmpty then return ()
  let line := if line.endsWith "\n" then (line.dropEnd 1).toString else line
  out.putStrLn (handle line)
  loop h out

def main : IO Unit := do
  let out ← IO.getStdout
  loop (← IO.getStdin) out
  out.flush
