/-
  C14 — Shipped lexers and parsers recognise exactly the language of blackbird.g4.

  Everything in `Gen` is REGENERATED from /repo on every run by harness/translate.py (grammar
  file, serialised ATNs of the Python and C++ lexers/parsers and of the four .interp files, the four
  .tokens files, the name tables of every target), so the theorems below are re-checked by the kernel
  against what the files say now.

  Partial: that the ANTLR runtime, driven by the (identical) automata, produces the token sequence
  and the verdict the grammar prescribes is established differentially on every run (model lexer =
  grammar's lexer rules with longest match / earliest rule, vs shipped lexer; Earley recogniser
  over the grammar vs shipped parser); the C++ target cannot be executed here, for it the claim
  rests on the identity of automata and vocabularies proved below.
-/
import Gen.G4
import Gen.Artefacts
import Blackbird.Lexer
import Blackbird.Grammar

namespace Blackbird

/-- the embedded automata of both targets and of the .interp files are identical -/
theorem C14_lexer_atn_identical :
    Gen.pyLexerATN = Gen.cppLexerATN ∧ Gen.pyLexerATN = Gen.pyLexerInterpATN ∧
    Gen.pyLexerATN = Gen.cppLexerInterpATN := by decide +kernel

theorem C14_parser_atn_identical :
    Gen.pyParserATN = Gen.cppParserATN ∧ Gen.pyParserATN = Gen.pyParserInterpATN ∧
    Gen.pyParserATN = Gen.cppParserInterpATN := by decide +kernel

/-- the four .tokens files are identical -/
theorem C14_tokens_files_identical :
    Gen.pyTokens = Gen.cppTokens ∧ Gen.pyTokens = Gen.pyLexerTokens ∧ Gen.pyTokens = Gen.cppLexerTokens := by
  decide +kernel

/-- rule names of every target are the grammar's rules, in grammar order (lexer rules include the
fragments) -/
theorem C14_rule_names_match_grammar :
    Gen.pyLexerRules = Gen.lexerRuleNames ∧ Gen.cppLexerRules = Gen.lexerRuleNames ∧
    Gen.pyLexerInterpRules = Gen.lexerRuleNames ∧ Gen.cppLexerInterpRules = Gen.lexerRuleNames ∧
    Gen.pyParserRules = Gen.parserRuleNames ∧ Gen.cppParserRules = Gen.parserRuleNames ∧
    Gen.pyParserInterpRules = Gen.parserRuleNames ∧ Gen.cppParserInterpRules = Gen.parserRuleNames := by
  decide +kernel

/-- symbolic token names of every target: index `i` is the `i`-th non-fragment lexer rule of the
grammar (index 0 is the invalid type) -/
theorem C14_symbolic_names_match_grammar :
    Gen.pyLexerSymbolic = "" :: Gen.tokenNames ∧ Gen.cppLexerSymbolic = "" :: Gen.tokenNames ∧
    Gen.pyParserSymbolic = "" :: Gen.tokenNames ∧ Gen.cppParserSymbolic = "" :: Gen.tokenNames ∧
    Gen.pyLexerInterpSymbolic = "" :: Gen.tokenNames ∧ Gen.pyParserInterpSymbolic = "" :: Gen.tokenNames ∧
    Gen.cppLexerInterpSymbolic = "" :: Gen.tokenNames ∧ Gen.cppParserInterpSymbolic = "" :: Gen.tokenNames := by
  decide +kernel

def dropTrailingEmpty (l : List String) : List String :=
  (l.reverse.dropWhile (· = "")).reverse

/-- literal names: index-aligned tables (trailing gaps trimmed) are those of the grammar's
single-literal rules; the Python lexer lists only the non-empty ones, in the same order -/
theorem C14_literal_names_match_grammar :
    dropTrailingEmpty Gen.cppLexerLiteral = dropTrailingEmpty ("" :: Gen.tokenLiterals) ∧
    dropTrailingEmpty Gen.cppParserLiteral = dropTrailingEmpty ("" :: Gen.tokenLiterals) ∧
    dropTrailingEmpty Gen.pyParserLiteral = dropTrailingEmpty ("" :: Gen.tokenLiterals) ∧
    dropTrailingEmpty Gen.pyLexerInterpLiteral = dropTrailingEmpty ("" :: Gen.tokenLiterals) ∧
    dropTrailingEmpty Gen.pyParserInterpLiteral = dropTrailingEmpty ("" :: Gen.tokenLiterals) ∧
    dropTrailingEmpty Gen.cppLexerInterpLiteral = dropTrailingEmpty ("" :: Gen.tokenLiterals) ∧
    dropTrailingEmpty Gen.cppParserInterpLiteral = dropTrailingEmpty ("" :: Gen.tokenLiterals) ∧
    Gen.pyLexerLiteral.filter (· ≠ "") = Gen.tokenLiterals.filter (· ≠ "") := by
  decide +kernel

/-- token numbering: type `i + 1` is the `i`-th non-fragment lexer rule, and every literal has the
number of its rule — exactly what the .tokens files say -/
def expectedTokensFile : List (String × Nat) :=
  (Gen.tokenNames.zipIdx.map fun p => (p.1, p.2 + 1)) ++
  (Gen.tokenLiterals.zipIdx.filterMap fun p => if p.1 = "" then none else some (p.1, p.2 + 1))

theorem C14_tokens_match_grammar : Gen.pyTokens = expectedTokensFile := by decide +kernel

/-- the grammar of the current tree is the grammar the model is written against: the lexer rules
(as regular expressions, with skip flags, in order) and the parser rules -/
theorem C14_grammar_is_model_grammar :
    Gen.lexRules.map (fun r => (r.1, r.2.1, r.2.2)) = lexRules.map (fun r => (r.1.name, r.2.1, r.2.2)) ∧
    Gen.parserRules = grammarParserRules ∧ Gen.tokenNames = grammarTokenNames := by
  decide +kernel

/-- the token kinds of the model are numbered like the grammar's token types -/
theorem C14_model_token_kinds : TokKind.all.map TokKind.name = Gen.tokenNames := by decide +kernel


/-- the generated recursive-descent parsers of the two targets have the same control-flow skeleton: the
same prediction decisions, the same ATN states entered and the same tokens matched, in the same order
(ANTLR emits one skeleton per grammar, whatever the target language) -/
theorem C14_parser_code_skeletons_identical :
    Gen.pyPredict = Gen.cppPredict ∧ Gen.pyStates = Gen.cppStates ∧ Gen.pyMatch = Gen.cppMatch := by
  decide +kernel

/-- **The constants the generated code is compiled against are the grammar's.** Token types (class attributes
of the Python lexer and parser, enums of the two C++ headers) are the token names numbered from 1 in rule order;
rule indices (RULE_* attributes, the C++ `Rule*` enum) are the parser rules numbered from 0. A header or class
left behind from another revision of the grammar - every automaton and .tokens file untouched - fails this. -/
theorem C14_code_constants_match_grammar :
    Gen.pyParserTokenConsts = (Gen.tokenNames.zipIdx.map fun p => (p.1, p.2 + 1)) ∧
    Gen.pyLexerTokenConsts = Gen.pyParserTokenConsts ∧
    Gen.cppParserTokenConsts = Gen.pyParserTokenConsts ∧
    Gen.cppLexerTokenConsts = Gen.pyParserTokenConsts ∧
    Gen.pyParserRuleConsts = Gen.parserRuleNames.zipIdx ∧
    Gen.cppParserRuleConsts = Gen.pyParserRuleConsts := by
  decide +kernel

/-- the rule code of the two targets refreshes its look-ahead variable at the same places (ATN state entered
last before each `_la = LA(1)`): a re-read dropped from one target leaves that target deciding on a stale token -/
theorem C14_parser_lookahead_reads_identical : Gen.pyLaReads = Gen.cppLaReads := by decide +kernel

end Blackbird
