/-
  C14, grammar to automaton — re-proved on every run over data regenerated from /repo.

  `Gen.lexerATN`, `Gen.lexerSubs`, `Gen.lexerCerts` are produced by an untrusted generator
  (lean/Tools/MkATNCert.lean); every one of them is re-checked here by kernel evaluation:
  the serialised lexer ATN of the shipped files decodes to `Gen.lexerATN`; the sub-automaton of every
  lexer rule is what `mkSub` cuts out of it; every certificate is a bisimulation (Lemmas/Bisim.lean)
  between the rule's sub-automaton and the regular expression the translator read from
  src/blackbird.g4. Consequence (`C14_lexer_rule_language`): for every lexer rule, fragments
  included, the shipped automaton accepts exactly the words the grammar's rule matches.
-/
import Blackbird.Lemmas.Bisim
import Blackbird.Lemmas.Longest
import Blackbird.ParserCode
import Gen.ATNCert
import Gen.Artefacts
import Gen.G4

namespace Blackbird
open Blackbird.ATN

/-- the serialised ATN embedded in blackbirdLexer.py decodes, and to exactly the generated structure -/
theorem C14_lexer_atn_decodes : decode Gen.pyLexerATN = some Gen.lexerATN := by decide +kernel

/-- one sub-automaton per lexer rule, each what `mkSub` cuts out of the decoded ATN -/
theorem C14_lexer_subautomata :
    (List.range Gen.lexAllRules.length).map (mkSub Gen.lexerATN) = Gen.lexerSubs := by decide +kernel

/-- every certificate checks: it contains the start pair and is closed under derivative / step on a
representative of every character class, with `nullable` agreeing with `accepting` throughout -/
theorem C14_lexer_certificates :
    ((Gen.lexerSubs.zip (Gen.lexAllRules.zip Gen.lexerCerts)).all fun x => certOK x.1 x.2.1.2 x.2.2) = true ∧
    Gen.lexerSubs.length = Gen.lexAllRules.length ∧ Gen.lexerCerts.length = Gen.lexAllRules.length := by
  decide +kernel


/-- **The shipped lexer automaton recognises the grammar's rules.** For every lexer rule of
src/blackbird.g4 (token rules and fragments alike, `i` = its index) and every word `w` of code
points: the automaton embedded in the generated lexers leads from the rule's start state to its stop
state on `w` exactly when the rule's regular expression matches `w`. -/
theorem C14_lexer_rule_language (i : Nat) (hi : i < Gen.lexAllRules.length) (w : List Nat) :
    ruleAccepts Gen.lexerATN i w = reMatches (Gen.lexAllRules[i]).2 w := by
  obtain ⟨hall, hl1, hl2⟩ := C14_lexer_certificates
  have hsub : mkSub Gen.lexerATN i = Gen.lexerSubs[i]'(by omega) := by
    have h := C14_lexer_subautomata
    have h2 : ((List.range Gen.lexAllRules.length).map (mkSub Gen.lexerATN))[i]'(by simpa using hi) =
        Gen.lexerSubs[i]'(by omega) := by simp only [h]
    simpa using h2
  have hz : i < (Gen.lexerSubs.zip (Gen.lexAllRules.zip Gen.lexerCerts)).length := by
    simp only [List.length_zip]; omega
  have hmem := List.getElem_mem hz
  have hok := List.all_eq_true.mp hall _ hmem
  simp only [List.getElem_zip] at hok
  unfold ruleAccepts
  rw [hsub]
  exact (certOK_sound _ _ _ hok w).symm

/-- in particular for the 61 token rules, under their names -/
theorem C14_token_rule_language (name : String) (re : Re) (skip : Bool) (h : (name, re, skip) ∈ Gen.lexRules) :
    ∃ i, i < Gen.lexAllRules.length ∧ Gen.lexAllRules[i]? = some (name, re) ∧
      ∀ w, ruleAccepts Gen.lexerATN i w = reMatches re w := by
  have hfind : ∀ x ∈ Gen.lexRules, ∃ i, i < Gen.lexAllRules.length ∧ Gen.lexAllRules[i]? = some (x.1, x.2.1) := by
    decide +kernel
  obtain ⟨i, hi, hget⟩ := hfind _ h
  refine ⟨i, hi, hget, fun w => ?_⟩
  have := C14_lexer_rule_language i hi w
  have hget' : Gen.lexAllRules[i] = (name, re) := by
    have := List.getElem?_eq_some_iff.mp hget
    exact this.2
  rw [hget'] at this
  exact this


/-! ### parser: the body of every rule over tokens and rule references -/

theorem C14_parser_atn_decodes : decode Gen.pyParserATN = some Gen.parserATN := by decide +kernel

theorem C14_parser_subautomata :
    (List.range Gen.parserAllRules.length).map (mkSubP Gen.parserATN) = Gen.parserSubs := by decide +kernel

theorem C14_parser_certificates :
    ((Gen.parserSubs.zip (Gen.parserAllRules.zip Gen.parserCerts)).all fun x => certOK x.1 x.2.1.2 x.2.2) = true ∧
    Gen.parserSubs.length = Gen.parserAllRules.length ∧ Gen.parserCerts.length = Gen.parserAllRules.length := by
  decide +kernel

/-- **The shipped parser automaton has the grammar's rule bodies.** For every parser rule of
src/blackbird.g4 (`i` = its index) and every word `w` over the alphabet "token types, EOF = 0, reference
to parser rule k = 1000 + k": the automaton embedded in the generated parsers leads from the rule's
start state to its stop state on `w` (a reference to a rule being one step, precedence predicates
ignored) exactly when the rule's right-hand side - for the left-recursive rule `expression` the form
ANTLR rewrites it to, `primary (operator operand)*` - matches `w`. -/
theorem C14_parser_rule_language (i : Nat) (hi : i < Gen.parserAllRules.length) (w : List Nat) :
    ruleBodyAccepts Gen.parserATN i w = reMatches (Gen.parserAllRules[i]).2 w := by
  obtain ⟨hall, hl1, hl2⟩ := C14_parser_certificates
  have hsub : mkSubP Gen.parserATN i = Gen.parserSubs[i]'(by omega) := by
    have h := C14_parser_subautomata
    have h2 : ((List.range Gen.parserAllRules.length).map (mkSubP Gen.parserATN))[i]'(by simpa using hi) =
        Gen.parserSubs[i]'(by omega) := by simp only [h]
    simpa using h2
  have hz : i < (Gen.parserSubs.zip (Gen.parserAllRules.zip Gen.parserCerts)).length := by
    simp only [List.length_zip]; omega
  have hmem := List.getElem_mem hz
  have hok := List.all_eq_true.mp hall _ hmem
  simp only [List.getElem_zip] at hok
  unfold ruleBodyAccepts
  rw [hsub]
  exact (certOK_sound _ _ _ hok w).symm

/-- the only rule given in rewritten form is `expression` -/
theorem C14_left_recursive_rules : Gen.leftRecursiveRules = ["expression"] := by decide +kernel


/-- **The model lexer's candidates are the shipped automaton's longest matches.** For every token rule
of the grammar and every input, the length the model lexer's rule scan returns (`Re.longest`, what
`bestRule` compares across the 61 rules) is the length of the longest prefix that the shipped lexer
automaton accepts for that rule; when it returns nothing, the automaton accepts no prefix. -/
theorem C14_candidate_is_automaton_longest (name : String) (re : Re) (skip : Bool)
    (h : (name, re, skip) ∈ Gen.lexRules) (s : List Char) :
    ∃ i, i < Gen.lexAllRules.length ∧ Gen.lexAllRules[i]? = some (name, re) ∧
      (∀ n, Re.longest re s = some n →
        ruleAccepts Gen.lexerATN i (codes (s.take n)) = true ∧
        ∀ k, n < k → k ≤ s.length → ruleAccepts Gen.lexerATN i (codes (s.take k)) = false) ∧
      (Re.longest re s = none → ∀ k, k ≤ s.length → ruleAccepts Gen.lexerATN i (codes (s.take k)) = false) := by
  obtain ⟨i, hi, hget, hlang⟩ := C14_token_rule_language name re skip h
  obtain ⟨h1, h2⟩ := longest_spec re s
  refine ⟨i, hi, hget, ?_, ?_⟩
  · intro n hn
    obtain ⟨ha, hb⟩ := h1 n hn
    exact ⟨by rw [hlang]; exact ha, fun k hk hks => by rw [hlang]; exact hb k hk hks⟩
  · intro hnone k hks
    rw [hlang]
    exact h2 hnone k hks

/-- **The rule code of the shipped parsers decides where, and how, the automaton does.** The control
forms of blackbirdParser.py (state entered last, kind of `if` / `while` / alternative switch), read from the
generated source on every run, are the same in blackbirdParser.cpp, and each sits on a decision state of the
matching kind of the decoded parser ATN; every decision of the ATN has its control form. -/
theorem C14_parser_control_matches_atn :
    Gen.pyControlStates = Gen.cppControlStates ∧ Gen.pyControlKinds = Gen.cppControlKinds ∧
    controlOK Gen.parserATN Gen.pyControlStates Gen.pyControlKinds = true := by
  decide +kernel

end Blackbird
