-- root of the proof library: property theorems (Props) and their helper lemmas
import Blackbird.Props.C02
import Blackbird.Props.C03
import Blackbird.Props.C03Parse
import Blackbird.Props.C04
import Blackbird.Props.C05
import Blackbird.Props.C06
import Blackbird.Props.C07
import Blackbird.Props.C08
import Blackbird.Props.C10
import Blackbird.Props.C11
import Blackbird.Props.C12
import Blackbird.Props.C13
import Blackbird.Props.C15
import Blackbird.Props.C16
import Blackbird.Props.C17
import Blackbird.Props.C18
import Blackbird.Props.C19
