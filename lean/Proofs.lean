-- root of the proof library: property theorems (Props) and their helper lemmas
import Blackbird.Props.C16
